"""Command line: python -m dxv.cli C07 [--tier quick|thorough] [--replay F]

Exit 0: held on everything explored (KNOWN-FINDING lines for listed open
findings).  Exit 1: `VIOLATION property=<id> replay=<path>`.  Exit 2: harness
error (never a VIOLATION line).
"""

import argparse
import importlib
import os
import resource
import sys
import traceback


def main(argv=None):
    ap = argparse.ArgumentParser()
    ap.add_argument('prop')
    ap.add_argument('--tier', default=os.environ.get('VERIF_TIER') or 'quick',
                    choices=['quick', 'thorough'])
    ap.add_argument('--seed', type=int, default=None)
    ap.add_argument('--replay')
    ap.add_argument('--only', action='append')
    args = ap.parse_args(argv)

    if os.environ.get('PYTHONHASHSEED') != '0':
        os.environ['PYTHONHASHSEED'] = '0'
        os.execv(sys.executable,
                 [sys.executable, '-m', 'dxv.cli'] + sys.argv[1:])

    seed = args.seed

    if seed is None:
        try:
            seed = int(os.environ.get('VERIF_SEED', '1'))
        except ValueError:
            seed = 1

    seed = abs(seed) % (2 ** 31)

    # Resource guard: a hostile option value must not take the machine down.
    try:
        lim = 6 * 1024 ** 3
        resource.setrlimit(resource.RLIMIT_AS, (lim, lim))
    except (ValueError, OSError):
        pass

    from dxv import sut

    try:
        sut.load()
        from dxv import engine, spec
        spec.self_check()
        prop = args.prop.upper()
        module = importlib.import_module('dxv.props.%s' % prop.lower())

        if args.replay:
            return engine.run_replay(prop, module, args.replay)

        return engine.run_property(prop, module, args.tier, seed,
                                   only=args.only)
    except sut.HarnessError as e:
        sys.stderr.write('HARNESS ERROR: %s\n' % e)
        return 2
    except Exception:
        sys.stderr.write('HARNESS ERROR:\n%s\n' % traceback.format_exc())
        return 2


if __name__ == '__main__':
    sys.exit(main())
