"""C07 -- length frames content: truncated/damaged files never yield
altered sections."""

import re

from hypothesis import strategies as hs

from dxv import sut, spec, foreign, gen, roundtrip
from dxv.engine import HypCheck, EnumCheck

ASSUMPTIONS = [
    'a truncated file is a byte prefix of the intact file (crashed writer or '
    'transfer); torn or reordered writes are outside the property',
    'for a perturbed length that is a non-negative integer not exceeding the '
    'bytes present, a yielded section must be exactly the specification\'s '
    'reading of those bytes (exact framing); whether the reader instead '
    'rejects it is not judged; what follows that section is unspecified '
    '(only the exception type is judged)',
]

LENGTH_RE = re.compile(rb'length=[0-9]+')


def strict_eq(a, b):
    if a != b:
        return False

    for k in a:
        if type(a[k]) is not type(b[k]):
            return False

    return True


def file_of(case):
    if 'doc' in case:
        return foreign.render(case['doc']).data

    if 'program' in case:
        return roundtrip.write_program(case['program'])

    return case['data']


def exc_kind(prefix, e):
    if isinstance(e, sut.ReadBudgetExceeded):
        return prefix + 'no-termination'

    where = sut.innermost_pydiffx_frame(e)
    return '%s%s@%s:%s' % (prefix, type(e).__name__, where[0], where[1])


def cut_points(data, exp):
    """Every cut for files up to 3000 bytes; for larger ones every cut in
    and around each header and the first and last 64 bytes of each content,
    plus ~1500 evenly spaced cuts."""
    n = len(data)

    if n <= 3000:
        return range(0, n + 1)

    cuts = set(range(0, n + 1, max(1, n // 1500)))
    cuts.add(n)

    for r in exp:
        hs_, cs, ce = r['span']
        cuts.update(range(max(0, hs_ - 2), min(n, cs + 64) + 1))
        cuts.update(range(max(0, ce - 64), min(n, ce + 2) + 1))

    return sorted(cuts)


def judge_truncations(data, exp, intact, st, case):
    for cut in cut_points(data, exp):
        _judge_cut(data, exp, intact, st, case, cut)


def is_short_read(got, intact, exp, present):
    """The tight classifier of the known finding: everything but the content
    equals the intact record, and the content is the specification's reading
    of the bytes actually present."""
    key = foreign.CONTENT_KEY[exp['kind']]

    for k in intact:
        if k != key and (got.get(k) != intact[k] or
                         type(got.get(k)) is not type(intact[k])):
            return False

    try:
        value, _n, _le = spec.ref_content(exp['kind'], present,
                                          exp['options'], exp['inherited'])
    except spec.Reject:
        return False

    return type(got.get(key)) is type(value) and got.get(key) == value


PERTURB = ['-1', '-2', '-3', '+1', '+2', '+3', '0', 'rest', 'rest+1',
           'rest+100', '1' + '0' * 20, 'neg1', 'negL', 'abc', '1.5', '1e3',
           'x1', '00', 'L_', 'L=', '3=8', 'boundaries']


def perturbed_values(L, rest, content=b''):
    out = []

    for p in PERTURB:
        if p == 'boundaries':
            # every length that ends the section after one of its own
            # lines (what follows is then read as header lines)
            pos = 0

            for _ in range(12):
                pos = content.find(b'\n', pos) + 1

                if pos <= 0 or pos >= L:
                    break

                out.append(str(pos))

            continue

        if p == 'L=':
            out.append(str(L) + '=')
            continue

        if p in ('-1', '-2', '-3', '+1', '+2', '+3'):
            out.append(str(L + int(p)))
        elif p == 'rest':
            out.append(str(rest))
        elif p == 'rest+1':
            out.append(str(rest + 1))
        elif p == 'rest+100':
            out.append(str(rest + 100))
        elif p == 'neg1':
            out.append('-1')
        elif p == 'negL':
            out.append('-%d' % L)
        elif p == '00':
            out.append('0' + str(L))       # leading zero, same number
        elif p == 'L_':
            out.append(str(L) + 'x')
        else:
            out.append(p)

    return out


def judge_perturbations(data, exp, intact, st, case):
    ns = sut.load()

    for j, r in enumerate(exp):
        if r['kind'] == 'container':
            continue

        hs_, cs, ce = r['span']
        header = data[hs_:cs]
        L = r['options']['length']
        rest = len(data) - cs      # bytes present after the header

        for v in dict.fromkeys(perturbed_values(L, rest, data[cs:ce])):
            new_header = LENGTH_RE.sub(b'length=' + v.encode('ascii'),
                                       header, count=1)
            blob = data[:hs_] + new_header + data[cs:]
            cstart = hs_ + len(new_header)
            recs, err = sut.read_records(blob)
            st.classes['perturbation'] += 1
            c = dict(case, section=j, length=v)

            if err is not None and not isinstance(err, ns.DiffXParseError):
                st.violation(exc_kind('perturbation-wrong-exception:', err),
                             'section %d (%s) length=%s: %r'
                             % (j, r['section'], v, err), c)
                continue

            if len(recs) < j or not all(strict_eq(recs[i], intact[i])
                                        for i in range(j)):
                st.violation('perturbation-altered-earlier-section',
                             'section %d length=%s' % (j, v), c)
                continue

            valid_int = re.fullmatch(r'[0-9]+', v) is not None
            value = int(v) if valid_int else None
            yielded = len(recs) > j

            if not valid_int or value > rest:
                if yielded and valid_int and is_short_read(
                        recs[j], dict(intact[j],
                                      options=dict(intact[j]['options'],
                                                   length=value)),
                        dict(r, options=dict(r['options'], length=value)),
                        blob[cstart:]):
                    # the known short read: everything present was taken
                    st.violation('short-read-accepted',
                                 'section %d (%s): declared length %s '
                                 'exceeds the %d bytes present, yet the '
                                 'section was yielded with all of them'
                                 % (j, r['section'], v, rest), c)
                elif yielded:
                    st.violation('invalid-length-accepted',
                                 'section %d (%s): length=%s (%d bytes '
                                 'present), yet a section was yielded: %r'
                                 % (j, r['section'], v, rest,
                                    _short(recs[j])), c)
                elif err is None:
                    st.violation('invalid-length-ignored',
                                 'section %d length=%s: normal end without '
                                 'the section' % (j, v), c)

                continue

            # a non-negative integer within the data: exact framing
            chunk = blob[cstart:cstart + value]
            opts = dict(r['options'], length=value)

            try:
                want, _n, _le = spec.ref_content(r['kind'], chunk, opts,
                                                 r['inherited'])
                rejected = None
            except spec.Reject as e:
                want = None
                rejected = e.reason

            if not yielded:
                if err is None:
                    st.violation('section-dropped-silently',
                                 'section %d length=%s' % (j, v), c)

                continue

            got = recs[j]
            key = foreign.CONTENT_KEY[r['kind']]

            if rejected is not None:
                st.violation('inexact-framing-accepted',
                             'section %d (%s) length=%s: the %d framed bytes '
                             'are not valid content (%s) but a section was '
                             'yielded: %r' % (j, r['section'], v, value,
                                              rejected, _short(got.get(key))),
                             c)
                continue

            same = (got.get('options') == opts and
                    got.get('section') == r['section'] and
                    got.get('line') == r['line'])

            if r['kind'] == 'meta':
                same = same and (roundtrip.canon_json(got.get(key)) ==
                                 roundtrip.canon_json(want))
            else:
                same = same and (type(got.get(key)) is type(want) and
                                 got.get(key) == want)

            if not same:
                st.violation('inexact-framing',
                             'section %d (%s) length=%s: %r, expected the '
                             'reading of exactly %d bytes: %r'
                             % (j, r['section'], v, _short(got.get(key)),
                                value, _short(want)), c)


def run_case(case, st):
    try:
        data = file_of(case)
    except Exception as e:
        st.violation('writer-rejected-valid-program', repr(e), case)
        return

    exp, perr = spec.ref_parse(data)

    if perr is not None:
        raise sut.HarnessError('reference parser rejects a C07 input: %s'
                               % perr.reason)

    intact, err = sut.read_records(data)

    if err is not None or len(intact) != len(exp) or \
            foreign.compare(intact, exp) is not None:
        st.violation('intact-file-misread',
                     '%r / %r' % (err, foreign.compare(intact, exp)
                                  if err is None else None), case)
        return

    if case.get('cold'):
        sub = {k: v for k, v in case.items() if k not in ('cut', 'cold')}
        from dxv import engine
        engine.run_isolated(_cold_pass, {'data': data, 'case': sub}, st)
        st.case(case, nontrivial=True)
        return

    if 'cut' in case:
        # replay of one coordinate
        sub = {k: v for k, v in case.items() if k != 'cut'}
        _judge_cut(data, exp, intact, st, sub, case['cut'])
        st.case(case, nontrivial=True)
        return

    if 'length' in case:
        sub = {k: v for k, v in case.items()
               if k not in ('length', 'section')}
        judge_perturbations(data, [r if i == case['section'] else
                                   dict(r, kind='container')
                                   for i, r in enumerate(exp)],
                            intact, st, sub)
        st.case(case, nontrivial=True)
        return

    judge_truncations(data, exp, intact, st, case)
    judge_perturbations(data, exp, intact, st, case)
    # the same truncations in a process that has not seen the intact file,
    # shortest first, and through the object model, longest first
    from dxv import engine
    engine.run_isolated(_cold_pass, {'data': data, 'case': case}, st)
    ncontent = sum(1 for r in exp if r['kind'] != 'container')
    st.case(case, nontrivial=ncontent >= 1,
            classes=['bytes-%s' % ('<500' if len(data) < 500 else
                                   '<2000' if len(data) < 2000 else '2000+'),
                     'writer-file' if 'program' in case else 'foreign-file'])


def _cold_pass(payload, st):
    """Runs in a forked child: no intact read has happened here."""
    ns = sut.load()
    from dxv import trees
    data, case = payload['data'], payload['case']
    exp, _ = spec.ref_parse(data)
    # expected intact records, from the reference parser (the parent has
    # already checked that the reader agrees with them)
    cold_intact = None

    for cut in cut_points(data, exp):
        recs, err = sut.read_records(data[:cut])

        if err is not None and not isinstance(err, ns.DiffXParseError):
            continue          # judged by the warm pass

        if len(recs) > len(exp):
            continue

        # all complete records whenever their number changes (and now and
        # then), otherwise just the newest complete one
        if len(recs) != cold_intact or cut % 16 == 0:
            lo = 0
        else:
            lo = max(0, len(recs) - 2)

        cold_intact = len(recs)
        hi = max(0, len(recs) - 1)
        res = foreign.compare(recs[lo:hi], exp[lo:hi])

        if res is not None:
            st.violation('truncation-altered-section-in-a-fresh-process',
                         'cut %d: %s' % (cut, res[1][:300]),
                         dict(case, cut=cut, cold=True))
            break

    # the same document (and a sample of its truncations) when it does not
    # start at offset 0 of its stream
    for k in (1, 96, 1000):
        for cut in sorted(set([len(data)] + list(
                range(0, len(data) + 1, max(1, len(data) // 25))))):
            stream = sut.open_stream(data[:cut], ('offset', k))
            recs, err = sut.read_records_from(stream)

            if err is not None and not isinstance(err, ns.DiffXParseError):
                continue

            lo, hi = 0, max(0, len(recs) - 1)

            if len(recs) > len(exp):
                hi = len(exp)

            res = foreign.compare(recs[lo:hi], exp[lo:hi])

            if res is None and cut == len(data) and (
                    err is not None or len(recs) != len(exp) or
                    foreign.compare(recs, exp) is not None):
                res = ('intact', 'the intact document is not read '
                       'correctly: %r, %d of %d records'
                       % (err, len(recs), len(exp)))

            if res is not None:
                st.violation('truncation-altered-section-at-stream-offset',
                             'document starting at stream offset %d, cut '
                             '%d: %s' % (k, cut, res[1][:300]),
                             dict(case, cut=cut, cold=True))
                break

    # object model, longest first: a failed load must not leak into the next
    n = len(data)
    dom_cuts = sorted(set(range(0, min(n, 120) + 1)) |
                      set(range(max(0, n - 60), n + 1)) |
                      set(range(0, n + 1, max(7, n // 300))), reverse=True)

    for cut in dom_cuts:
        blob = data[:cut]
        recs, err = sut.read_records(blob)

        tree = None

        try:
            tree = ns.DiffX.from_bytes(blob)
        except Exception:
            pass

        # whatever that load did, loading nothing afterwards gives nothing
        try:
            empty = trees.content_list(trees.snapshot(
                ns.DiffX.from_bytes(b'')))
        except Exception as e:
            empty = repr(e)

        if empty != [('diffx', None)]:
            st.violation('object-model-load-depends-on-the-previous-load',
                         'after loading the first %d bytes (%s), loading an '
                         'empty stream gives %r'
                         % (cut, 'failed' if tree is None else 'ok',
                            _short(empty)),
                         dict(case, cut=cut, cold=True))
            break

        if tree is None or err is not None:
            continue

        want = [('diffx', None)]

        for r in recs[1:]:
            kind = spec.kind_of(r['section'])
            c = None

            if kind != 'container':
                c = r.get(foreign.CONTENT_KEY[kind])

                if not c:
                    continue

            want.append((r['section'], c))

        got = trees.content_list(trees.snapshot(tree))

        if got != want:
            st.violation('object-model-load-differs-from-reader',
                         'cut %d: tree holds %r, the reader yields %r'
                         % (cut, _short(got), _short(want)),
                         dict(case, cut=cut, cold=True))
            break


def _judge_cut(data, exp, intact, st, case, cut):
    ns = sut.load()
    n = len(data)
    recs, err = sut.read_records(data[:cut])
    region = 'boundary'
    sec = None

    for j, r in enumerate(exp):
        hs_, cs, ce = r['span']

        if hs_ < cut < cs:
            region, sec = 'in-header', j
            break

        if cs < cut < ce:
            region, sec = 'in-content', j
            break

    st.classes['cut-' + region] += 1

    if err is not None and not isinstance(err, ns.DiffXParseError):
        st.violation(exc_kind('truncation-wrong-exception:', err),
                     'cut at %d of %d (%s): %r' % (cut, n, region, err),
                     dict(case, cut=cut))
        return

    if len(recs) > len(intact):
        st.violation('truncation-extra-records',
                     'cut %d: %d records' % (cut, len(recs)),
                     dict(case, cut=cut))
        return

    for i, got in enumerate(recs):
        if strict_eq(got, intact[i]):
            continue

        # an altered section.  Is it the known short read?
        if (i == len(recs) - 1 and err is None and sec == i and
                region == 'in-content' and
                is_short_read(got, intact[i], exp[i],
                              data[exp[i]['span'][1]:cut])):
            st.violation('short-read-accepted',
                         'cut %d inside the content of section %d (%s), '
                         'right after a line terminator: section yielded '
                         'with %d of %d declared bytes, normal end'
                         % (cut, i, exp[i]['section'],
                            cut - exp[i]['span'][1],
                            exp[i]['options']['length']),
                         dict(case, cut=cut))
        else:
            st.violation('truncation-altered-section',
                         'cut %d (%s): record %d = %r, intact %r'
                         % (cut, region, i, _short(got),
                            _short(intact[i])),
                         dict(case, cut=cut))

        break


def run_large_entry(case, st):
    if 'cut' in case:
        # replay of one cut of a large file
        sub = {k: v for k, v in case.items() if k != 'cut'}
        st2 = type(st)()
        run_large(sub, st2)

        for kind, b in st2.buckets.items():
            st.violation(kind, b['detail'], case)

        st.case(case, nontrivial=True)
        return

    run_large(case, st)


def _short(v):
    s = repr(v)
    return s if len(s) < 200 else s[:200] + '...'


def run_large(case, st):
    """A file with one very large section: cuts around block boundaries."""
    size, line_len, kind, enc = (case['size'], case['line_len'],
                                 case['kind'], case['encoding'])
    line = ('y' * (line_len - 1) + '\n')
    text = line * (size // line_len) + 'tail line\n'

    if kind == 'diff':
        calls = [['change', {}], ['file', {}],
                 ['meta', {'metadata': {'path': 'big'}}],
                 ['diff', {'content': text.encode('ascii')}],
                 ['file', {}], ['meta', {'metadata': {'path': 'after'}}]]
    else:
        calls = [['preamble', {'text': text, 'indent': case['indent'],
                               'encoding': enc}],
                 ['change', {}], ['file', {}],
                 ['meta', {'metadata': {'path': 'after'}}]]

    data = spec.ref_serialize({'encoding': 'utf-8', 'calls': calls})
    exp, perr = spec.ref_parse(data)

    if perr is not None:
        raise sut.HarnessError('reference parser rejects a large C07 input')

    intact, err = sut.read_records(data)
    st.case(case, nontrivial=True,
            classes=['large-%s' % kind, 'size-%dk' % (size // 1024)])

    if err is not None or foreign.compare(intact, exp) is not None:
        st.violation('intact-file-misread', repr(err), case)
        return

    big = max(range(len(exp)), key=lambda i: exp[i]['span'][2] -
              exp[i]['span'][1])
    cs, ce = exp[big]['span'][1], exp[big]['span'][2]
    cuts = set()

    for block, kmax in ((4096, 3), (8192, 2), (65536, 4), (131072, 2)):
        for base in (0, cs):           # file offsets and content offsets
            for k in range(1, kmax + 1):
                if base + k * block > ce + block:
                    break

                for d in (-1, 0, 1, line_len):
                    cuts.add(base + k * block + d)

    step = max(1, (ce - cs) // 30)
    cuts.update(range(cs, ce, step))
    cuts.update(range(max(0, len(data) - 40), len(data) + 1))
    cuts.update(range(max(0, ce - 5), min(len(data), ce + 5)))
    sub = dict(case)

    for cut in sorted(c for c in cuts if 0 <= c <= len(data)):
        _judge_cut(data, exp, intact, st, sub, cut)


LARGE_SIZES = [65536, 65536 + 64, 70000, 131072, 131072 + 4096, 200000]


def large_grid():
    out = []

    for size in LARGE_SIZES:
        for line_len in (64, 128, 100, 4096, 37, 65):
            for kind, indent, enc in (('diff', 0, 'utf-8'),
                                      ('preamble', 0, 'utf-8'),
                                      ('preamble', 4, 'latin-1'),
                                      ('preamble', 4, 'utf-16'),
                                      ('preamble', 0, 'utf-16'),
                                      ('diff', 0, 'latin-1')):
                out.append({'size': size, 'line_len': line_len, 'kind': kind,
                            'indent': indent, 'encoding': enc})

    return out


def large_chunks(tier, seed):
    grid = large_grid()

    if tier == 'thorough':
        return grid

    return [grid[(seed * 7 + i * 19) % len(grid)] for i in range(12)]


def run_large_chunk(case, st):
    run_large(case, st)


@hs.composite
def large_cases(draw):
    return {
        'size': draw(hs.sampled_from(LARGE_SIZES)),
        'line_len': draw(hs.sampled_from([64, 64, 128, 100, 4096, 37])),
        'kind': draw(hs.sampled_from(['diff', 'diff', 'preamble'])),
        'indent': draw(hs.sampled_from([0, 4])),
        'encoding': draw(hs.sampled_from(['utf-8', 'latin-1', 'utf-16'])),
    }


@hs.composite
def cases(draw):
    if draw(hs.booleans()):
        return {'doc': draw(foreign.docs(max_changes=2, max_files=2))}

    return {'program': draw(gen.programs(max_changes=2, max_files=2))}


def _checks():
    return [
        EnumCheck(
            'large-sections', large_chunks, run_large_chunk,
            run_case=run_large_entry, exhaustive=False,
            rule='files with one section of 64 KiB .. 200 KB (lines of 37 .. '
                 '4096 bytes, so that line terminators fall on and around '
                 'multiples of 4 KiB .. 128 KiB) cut at every offset around '
                 'those multiples (file- and content-relative), at 60 '
                 'evenly spaced points and around the section end; same '
                 'prefix-of-intact-records oracle; a deterministic grid of '
                 'size x line length x section kind x indent x codec, 12 '
                 'grid points per quick run (rotating with the seed), the '
                 'whole grid in the thorough tier; every case non-trivial',
            bound={'quick': '12 of 216 grid points',
                   'thorough': 'all 216 grid points'}),
        HypCheck(
            'truncate-and-perturb', cases, run_case,
            budget={'quick': (16, 10), 'thorough': (16, 320)},
            rule='well-formed files (writer programs and foreign files whose '
                 'content includes complete fake sections) x EVERY cut point '
                 '0..len(file) (files over 3000 bytes: every cut in and '
                 'around each header and the ends of each content, plus '
                 '~1500 evenly spaced ones) (records must be a prefix of the intact '
                 'records, then normal end or DiffXParseError) and, for '
                 'every content header, length replaced by L+-{1,2,3}, 0, '
                 'rest, rest+1, rest+100, 10^20, -1, -L, abc, 1.5, 1e3, x1, '
                 '0L, Lx (exact framing / rejection); non-trivial = file '
                 'with >= 1 content section (all its cuts and perturbations; '
                 'the cuts are repeated in a freshly forked process, '
                 'shortest first and without reading the intact file, and '
                 'through the object model, longest first, '
                 'run; counted per cut region in classes)'),
    ]


def checks():
    out = _checks()

    for c in out:
        if c.name in ['truncate-and-perturb']:
            c.isolated = True

    return out
