"""C17 -- reader output does not depend on stream chunking or header
alignment."""

import glob
import io
import os

from hypothesis import strategies as hs

from dxv import sut, spec, foreign, gen, roundtrip
from dxv.engine import HypCheck, EnumCheck, VERIF

ASSUMPTIONS = [
    'the read-ahead block size is varied by rebinding the default of the '
    'reader\'s private read-until helper from the harness; if that helper '
    'is refactored away the block-size dimension is reported as unavailable '
    'and only the padding dimension is exercised',
    'padding a header means adding an unknown option "pad=x..." (smallest '
    'increase: 6 or 7 bytes), so paddings are 0 and 6/7..P',
]

DEFAULT_BLOCK = 96
MAXPAD = 2 * DEFAULT_BLOCK + 8
BLOCKS = list(range(1, 2 * DEFAULT_BLOCK + 1)) + [255, 256, 4096, 10 ** 6,
                                                    2 ** 31 - 1, 2 ** 63 - 1]


def pad_header(data, span, k):
    """Lengthen the header at ``span`` by adding pad=x*k."""
    hstart, cstart, _ = span
    header = data[hstart:cstart]
    nl = b'\r\n' if header.endswith(b'\r\n') else b'\n'
    body = header[:-len(nl)]
    sep = b' ' if body.endswith(b':') else b', '
    return (data[:hstart] + body + sep + b'pad=' + b'x' * k + nl +
            data[cstart:])


def norm(recs):
    return [{k: v for k, v in r.items()} for r in recs]


def same(a, b):
    if len(a) != len(b):
        return False

    for x, y in zip(a, b):
        if x != y:
            return False

        for k in x:
            if type(x[k]) is not type(y[k]):
                return False

    return True


def judge_file(data, st, case, quick_blocks=None):
    """All paddings of every header and all block sizes for one file."""
    exp, err = spec.ref_parse(data)

    if err is not None:
        raise sut.HarnessError('reference parser rejects a C17 input: %s'
                               % err.reason)

    base, berr = sut.read_records(data)

    if berr is not None:
        st.violation('base-file-rejected:%s' % type(berr).__name__,
                     repr(berr), case)
        return 0

    res = foreign.compare(base, exp)

    if res is not None or len(base) != len(exp):
        st.violation('base-' + (res[0] if res else 'record-count'),
                     res[1] if res else '', case)
        return 0

    runs = 0

    # 1. padding each header through every alignment
    for j, rec in enumerate(exp):
        for k in range(1, MAXPAD + 1):
            padded = pad_header(data, rec['span'], k)
            recs, e = sut.read_records(padded)
            runs += 1

            if e is not None:
                st.violation('padded-file-rejected:%s' % type(e).__name__,
                             'header %d pad %d: %r' % (j, k, e),
                             dict(case, header=j, pad=k))
                break

            want = norm(base)
            want[j] = dict(want[j])
            want[j]['options'] = dict(want[j]['options'], pad='x' * k)

            if not same(recs, want):
                st.violation('records-depend-on-header-alignment',
                             'header %d (%s) padded by %d bytes'
                             % (j, rec['section'], k),
                             dict(case, header=j, pad=k))
                break

    # 1a'. two long headers in one file (the later one shorter or longer):
    #      state kept from one header must not leak into the next
    for j in range(len(exp)):
        for j2 in range(j + 1, min(j + 4, len(exp))):
            for k1, k2 in ((150, 100), (100, 150), (200, 97), (300, 1),
                           (97, 96)):
                blob = pad_header(data, exp[j2]['span'], k2)
                blob = pad_header(blob, exp[j]['span'], k1)
                recs, e = sut.read_records(blob)
                runs += 1
                want = norm(base)

                for jj, kk in ((j, k1), (j2, k2)):
                    want[jj] = dict(want[jj])
                    want[jj]['options'] = dict(want[jj]['options'],
                                               pad='x' * kk)

                if e is not None or not same(recs, want):
                    st.violation('records-depend-on-earlier-header',
                                 'headers %d and %d padded by %d and %d: %r'
                                 % (j, j2, k1, k2, e),
                                 dict(case, header=j, pad=k1, header2=j2,
                                      pad2=k2))
                    break

    # 1a''. a header far longer than any number of blocks a recursive or
    #       quadratic reader could take (100 000 bytes at the default
    #       block, 3 000 bytes at blocks 1 and 2)
    old_block = sut.get_chunk_size()

    for j in (0, len(exp) - 1):
        for k, block in ((100000, None), (3000, 1), (3000, 2), (20000, 7)):
            try:
                if block is not None and old_block is not None:
                    sut.set_chunk_size(block)

                blob = pad_header(data, exp[j]['span'], k)
                recs, e = sut.read_records(blob, budget=False)
            finally:
                if old_block is not None:
                    sut.set_chunk_size(old_block)

            runs += 1
            want = norm(base)
            want[j] = dict(want[j])
            want[j]['options'] = dict(want[j]['options'], pad='x' * k)

            if e is not None or not same(recs, want):
                st.violation('records-depend-on-header-length',
                             'header %d padded by %d bytes, block %r: %r'
                             % (j, k, block, e),
                             dict(case, header=j, pad=k,
                                  block=block or old_block))
                break

    # 1b. empty lines before each header, through two full blocks
    for j, rec in enumerate(exp):
        if j == 0:
            continue

        hstart = rec['span'][0]
        header = data[hstart:rec['span'][1]]
        nl = b'\r\n' if header.endswith(b'\r\n') else b'\n'

        for k in range(1, MAXPAD + 1):
            blob = data[:hstart] + nl * k + data[hstart:]
            recs, e = sut.read_records(blob)
            runs += 1

            if e is not None or not same(recs, base):
                st.violation('records-depend-on-blank-lines',
                             '%d empty lines before header %d (%s): %r'
                             % (k, j, rec['section'], e),
                             dict(case, header=j, blank=k))
                break

    # 1b'. other readers in the same process: one that was abandoned after
    #      its first records, and one advanced in lockstep with ours
    ns_ = sut.load()
    recs, e = sut.read_records_lockstep(data)
    runs += 1

    if e is not None or not same(recs, base):
        st.violation('records-depend-on-another-reader',
                     'read after an abandoned reader and in lockstep with '
                     'another: %r' % e, dict(case, other_reader='lockstep'))

    # 1b+. a reader made on a stream that is still empty and filled before
    #      the first record is asked for (a spool written afterwards)
    late = io.BytesIO()
    reader = ns_.DiffXReader(late)
    late.write(data)
    late.seek(0)
    recs, e = sut.read_records_from_reader(reader)
    runs += 1

    if e is not None or not same(recs, base):
        st.violation('records-depend-on-when-the-stream-was-filled',
                     'reader constructed before the data was written: %r'
                     % e, dict(case, other_reader='late-filled'))

    # 1b''. whitespace-only lines and empty lines with the other newline
    #       style before a header: a reader may refuse them, but if it
    #       accepts them the records must not change
    for j, rec in enumerate(exp):
        hstart = rec['span'][0]

        for filler in (b'  \n', b'\t\n', b' \r\n', b'\r\n', b'\n',
                       b'\n  \n\n', b'\r\n\n'):
            blob = data[:hstart] + filler + data[hstart:]
            recs, e = sut.read_records(blob)
            runs += 1

            if e is not None:
                if not isinstance(e, ns_.DiffXParseError):
                    st.violation('blank-line-wrong-exception:%s'
                                 % type(e).__name__,
                                 '%r before header %d: %r' % (filler, j, e),
                                 dict(case, header=j, filler=filler))

                continue

            if not same(recs, base):
                st.violation('records-depend-on-blank-lines',
                             '%r before header %d (%s)'
                             % (filler, j, rec['section']),
                             dict(case, header=j, filler=filler))
                break

    # 1c. other kinds of stream a caller may hand over: buffered readers
    #     with small buffers (they offer peek()), a real file, and a stream
    #     already positioned past some leading bytes
    hows = [('buffered', n) for n in (16, 61, 96, 97, 256, 1024, 4096)] + \
        [('offset', k) for k in (1, 2, 7, 95, 96, 97, 4096)] + \
        [('file',), ('gzip',)]

    for how in hows:
        variants = [(data, base)]

        if exp:
            # and with the first header padded, so later headers move
            for k in (1, 50, 96):
                padded = pad_header(data, exp[0]['span'], k)
                want = norm(base)
                want[0] = dict(want[0])
                want[0]['options'] = dict(want[0]['options'], pad='x' * k)
                variants.append((padded, want))

        for blob, want in variants:
            stream = sut.open_stream(blob, how)

            try:
                recs, e = sut.read_records_from(stream)
            finally:
                stream.close()

            runs += 1

            if e is not None or not same(recs, want):
                st.violation('records-depend-on-stream-kind',
                             'stream %r: %r' % (how, e),
                             dict(case, stream=list(how)))
                break

    # 2. every block size
    old = sut.get_chunk_size()

    if old is None or not sut.set_chunk_size(old):
        st.notes['block_size_variation'] = 'unavailable'
        return runs

    try:
        for b in (quick_blocks or BLOCKS):
            sut.set_chunk_size(b)
            recs, e = sut.read_records(data, budget=False)
            runs += 1

            if e is not None or not same(recs, base):
                st.violation('records-depend-on-block-size',
                             'block size %d: %r' % (b, e),
                             dict(case, block=b))
                break

        # 3. a diagonal: padding and block size together
        for j, rec in enumerate(exp[:6]):
            for b in (1, 2, 7, 64, 95, 97, 191, 193):
                sut.set_chunk_size(b)

                for k in (1, 2, b, b + 1, 2 * b, 96 - 7, 96, 97):
                    padded = pad_header(data, rec['span'], max(1, k))
                    recs, e = sut.read_records(padded, budget=False)
                    runs += 1
                    want = norm(base)
                    want[j] = dict(want[j])
                    want[j]['options'] = dict(want[j]['options'],
                                              pad='x' * max(1, k))

                    if e is not None or not same(recs, want):
                        st.violation('records-depend-on-block-and-padding',
                                     'header %d pad %d block %d: %r'
                                     % (j, k, b, e),
                                     dict(case, header=j, pad=k, block=b))
                        break
    finally:
        sut.set_chunk_size(old)

    return runs


def run_case(case, st):
    if 'doc' in case:
        data = foreign.render(case['doc']).data
    elif 'program' in case:
        try:
            data = roundtrip.write_program(case['program'])
        except Exception as e:
            st.violation('writer-rejected-valid-program', repr(e), case)
            return
    else:
        data = case['data']

    if 'filler' in case or 'other_reader' in case:
        sub = {k: v for k, v in case.items()
               if k not in ('filler', 'other_reader', 'header')}
        judge_file(data, st, sub)
        st.case(case, nontrivial=True)
        return

    if 'header' in case or 'block' in case or 'blank' in case or \
            'stream' in case:
        # replay of one coordinate
        return replay_point(data, case, st)

    runs = judge_file(data, st, case)
    st.case(case, nontrivial=True,
            classes=['bytes-%s' % ('<500' if len(data) < 500 else
                                   '<2000' if len(data) < 2000 else '2000+')])
    st.classes['reader-runs'] += runs


def replay_point(data, case, st):
    exp, _ = spec.ref_parse(data)
    base, _ = sut.read_records(data)
    st.case(case, nontrivial=True)
    old = sut.get_chunk_size()

    try:
        if 'block' in case and old is not None:
            sut.set_chunk_size(case['block'])

        d = data
        want = norm(base)

        if 'stream' in case:
            for blob, want_ in [(data, want)]:
                stream = sut.open_stream(blob, tuple(case['stream']))

                try:
                    recs, e = sut.read_records_from(stream)
                finally:
                    stream.close()

                if e is not None or not same(recs, want_):
                    st.violation('records-depend-on-stream-kind', repr(e),
                                 case)

            return

        if 'blank' in case:
            j = case['header']
            hstart = exp[j]['span'][0]
            header = data[hstart:exp[j]['span'][1]]
            nl = b'\r\n' if header.endswith(b'\r\n') else b'\n'
            d = data[:hstart] + nl * case['blank'] + data[hstart:]
        elif 'header' in case:
            j, k = case['header'], max(1, case['pad'])
            d = data

            if 'header2' in case:
                j2, k2 = case['header2'], case['pad2']
                d = pad_header(d, exp[j2]['span'], k2)
                want[j2] = dict(want[j2])
                want[j2]['options'] = dict(want[j2]['options'],
                                           pad='x' * k2)

            d = pad_header(d, exp[j]['span'], k)
            want[j] = dict(want[j])
            want[j]['options'] = dict(want[j]['options'], pad='x' * k)

        recs, e = sut.read_records(d, budget=False)

        if e is not None or not same(recs, want):
            st.violation('records-depend-on-chunking', repr(e), case)
    finally:
        if old is not None:
            sut.set_chunk_size(old)


@hs.composite
def cases(draw):
    if draw(hs.booleans()):
        return {'doc': draw(foreign.docs(max_changes=2, max_files=2))}

    return {'program': draw(gen.programs(max_changes=2, max_files=2))}


def corpus_chunks(tier, seed):
    return sorted(glob.glob(os.path.join(VERIF, 'corpus', '*.diff'))) + \
        [os.path.join(VERIF, 'corpus', 'small', 'ctrl-z.diffx')]


def run_corpus(path, st):
    with open(path, 'rb') as fp:
        data = fp.read()

    case = {'name': os.path.basename(path), 'data': data}
    runs = judge_file(data, st, case)
    st.bulk(1, 1, classes={'reader-runs': runs},
            sample={'name': case['name'], 'bytes': len(data)})


def o_chunks(tier, seed):
    return ['python -O']


def run_o_chunk(_chunk, st):
    """The same fixed inputs in this interpreter and in ones started with
    -O (assert statements compiled away) and -bb (bytes/str comparisons
    are errors): identical results."""
    from dxv import ocheck
    n = ocheck.compare(st, ('records', 'to_bytes', 'stats'),
                       sut.HarnessError)
    n += ocheck.in_process_variants(st, ('records', 'to_bytes', 'stats'))
    st.bulk(n, n, sample={'results-compared': n})


def run_o_case(case, st):
    run_o_chunk(None, st)
    st.case(case, nontrivial=True)


def checks():
    return [
        HypCheck(
            'generated-files', cases, run_case,
            budget={'quick': (16, 5), 'thorough': (16, 80)},
            rule='per generated file (foreign generator or writer program; '
                 'long content lines included): every header padded by '
                 '1..200 bytes via an unknown option (walking its newline '
                 'and the content start through every position of the '
                 'read-ahead block), 1..200 empty lines inserted before '
                 'every header, buffered readers with 16..4096-byte buffers, '
                 'a real file and streams positioned past 1..4096 leading '
                 'bytes, every block size 1..192, 255, 256, '
                 '4096, 10^6, 2^31 - 1, 2^63 - 1, and a diagonal of padding x block size; '
                 'records must equal the unpadded/default-block records '
                 '(+ the pad option) and the reference reading; every file '
                 'is non-trivial (thousands of reader runs each, counted as '
                 'reader-runs)'),
        EnumCheck(
            'spec-examples', corpus_chunks, run_corpus, run_case=run_case,
            rule='the same sweep over the seven specification example files and '
                 'one file with 0x1A bytes right behind its headers',
            bound={'quick': '8 files x all paddings x all block sizes',
                   'thorough': '8 files x all paddings x all block sizes'}),
        EnumCheck(
            'interpreter-flags', o_chunks, run_o_chunk,
            run_case=run_o_case,
            rule='the 7 spec examples and 25 small corpus files read with '
                 'the default and four other block sizes and five paddings '
                 'of the first header, loaded into the object model, '
                 're-serialised and analysed for statistics, once in this '
                 'interpreter and once each in children started with '
                 'python -O, python -bb and with DEBUG logging on: the digests must '
                 'be identical (nothing may hang on an assert statement '
                 'being executed or on comparing bytes with str); every '
                 'comparison is non-trivial',
            bound={'quick': '32 files x 12 results, three interpreters',
                   'thorough': 'same'}),
    ]
