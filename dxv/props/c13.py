"""C13 -- generated statistics are exact, additive, idempotent and
non-destructive."""

import copy

from hypothesis import strategies as hs

from dxv import sut, spec, trees, hunks, gen
from dxv.engine import HypCheck

ASSUMPTIONS = [
    'insertions/deletions of a file = number of "+"/"-" lines inside the '
    'hunks of its diff (ground truth carried by the hunk generator)',
    'a change reports the sums of what its files *report* after generation '
    '(including statistics a non-analysed file already had); the whole file '
    'reports the sums over its changes',
    'diffs in a multi-byte or EBCDIC encoding declare that encoding; their '
    'payloads avoid characters whose code units contain 0x0A/0x0D',
]

DIFF_ENCS = [None, None, 'utf-8', 'latin-1', 'utf-16', 'utf-16-le',
             'utf-32-be', 'cp037', 'utf-32', 'utf-8-sig', 'UTF8']
EXPLICIT_BOM = {'utf-8': b'\xef\xbb\xbf', 'UTF8': b'\xef\xbb\xbf',
                'utf-16-le': b'\xff\xfe', 'utf-32-be': b'\x00\x00\xfe\xff'}
SAFE_PAYLOADS = [b'', b'x', b'line of text', b'-- a/file', b'++ b/file',
                 b'@@ -1 +1 @@', b' leading space', b'+', b'-',
                 b'\\ No newline at end of file', b'#.change:', b'tail ',
                 b'form\x0cfeed', b'vt\x0bx', b'fs\x1cx', b'lone\rcr',
                 b'y' * 1500, b'cr at end\r', b'-- a/old name', b'nul\x00byte',
                 b'\x00',
                 b'++ b/new name']


@hs.composite
def file_desc(draw, nested=False):
    """One file: how its diff is made + pre-existing metadata."""
    kind = draw(hs.sampled_from(['text', 'text', 'text', 'binary', 'empty',
                                 'absent', 'damaged']))

    if nested and kind == 'absent':
        kind = 'empty'
    f = {'kind': kind}
    r = draw(hs.integers(0, 3))

    if r == 0:
        f['stats'] = {'insertions': draw(hs.integers(0, 50)),
                      'deletions': draw(hs.integers(0, 50)),
                      'lines changed': draw(hs.integers(0, 100)),
                      'custom': 'keep me'}
    elif r == 1:
        f['stats'] = {'custom': [1, 2]}
    elif r == 2 and draw(hs.booleans()):
        # custom keys named like the figures of the levels above
        f['stats'] = {'files': draw(hs.integers(1, 12)), 'changes': 3,
                      'lines changed': 2}

    f['other_meta'] = draw(hs.sampled_from([{}, {'path': 'f'},
                                            {'path': {'old': 'a',
                                                      'new': 'b'},
                                             'op': 'modify'}]))

    if kind in ('text', 'damaged', 'binary'):
        d = draw(hunks.diff_st(max_hunks=3))

        # payloads safe for every encoding used here
        for e in d['hunks']:
            for item in e['hunk']['body']:
                if item[0] != 'marker' and item[1] not in SAFE_PAYLOADS:
                    item[1] = b'payload'

            if e['hunk']['context'] is not None and \
                    not e['hunk']['context'].isascii():
                e['hunk']['context'] = b'ctx'

        f['diff'] = d
        f['crlf'] = draw(hs.booleans())
        f['declare_le'] = draw(hs.booleans())
        f['encoding'] = draw(hs.sampled_from(DIFF_ENCS))
        f['misdeclare'] = (f['encoding'] in ('utf-16', 'utf-16-le',
                                             'utf-32-be', 'utf-32') and
                           kind == 'text' and draw(hs.integers(0, 3)) == 0)
        f['final_newline'] = draw(hs.integers(0, 3)) != 0
        f['declare_type'] = draw(hs.booleans())
        # an explicit byte order mark in front of a codec that does not
        # write one itself
        f['explicit_bom'] = draw(hs.integers(0, 3)) == 0
        f['cut_tail'] = draw(hs.sampled_from(range(12))) == 0
        f['flip_sign'] = draw(hs.sampled_from(range(3))) == 0
        f['foreign_line'] = draw(hs.sampled_from(
            [None, None, '\\ \\hline', '\\ server\\share\\x.txt',
             'garbage', '\\garbage', '\tx', '\\ No newline at end']))

        if draw(hs.integers(0, 7)) == 0:
            # a long first line (before the first hunk)
            n = draw(hs.sampled_from([1022, 1023, 1024, 4095, 4096, 8192]))
            d['pre'] = [b'L' * n] + d['pre']

    if not nested:
        f['container_encoding'] = draw(hs.sampled_from(
            [None, None, 'utf-16', 'utf-32-be', 'ascii', 'latin-1']))

        if draw(hs.integers(0, 2)) == 0:
            # the file is changed after the first generate_stats() and the
            # statistics are generated again
            f['then'] = draw(file_desc(nested=True))

            if f.get('misdeclare'):
                # the usual history: a wrongly declared encoding corrected
                # (the diff itself is not touched)
                f['then'] = dict(f, misdeclare=False, redeclare_only=True)
                f['then'].pop('then', None)

    return f


def render_lines(lines, f, force_final=False):
    """Join ASCII lines with the file's newline and encode in its codec."""
    nl = '\r\n' if f['crlf'] else '\n'
    text = nl.join(l.decode('ascii') for l in lines)

    if (f['final_newline'] or force_final) and lines:
        text += nl

    data = text.encode(f['encoding'] or 'ascii')

    if f.get('explicit_bom') and f['encoding'] in EXPLICIT_BOM and lines:
        data = EXPLICIT_BOM[f['encoding']] + data

    return data


def diff_bytes(f):
    """(bytes, insertions, deletions) for an intact text diff."""
    lines, exp = hunks.diff_lines(f['diff'])
    return (render_lines(lines, f), exp['total_inserts'],
            exp['total_deletes'])


def build_tree(case):
    """Build the tree; returns (diffx, per-file expectations)."""
    ns = sut.load()
    diffx = ns.DiffX()
    expect = []

    def stats_of(d):
        # a pre-existing statistics dictionary may be any mapping a loader
        # produced (OrderedDict, defaultdict)
        d = copy.deepcopy(d)
        flavour = len(repr(d)) % 3

        if flavour < 2:
            import collections
            d = (collections.OrderedDict(d) if flavour == 0 else
                 collections.defaultdict(int, d))

        return d

    if 'main_stats' in case:
        diffx.meta = {'stats': stats_of(case['main_stats']), 'top': 1}

    for c in case['changes']:
        change = diffx.add_change()

        if 'stats' in c:
            change.meta = {'stats': stats_of(c['stats']), 'id': 'abc'}

        if c.get('encoding'):
            change.encoding = c['encoding']

        fexp = []

        for f in c['files']:
            meta = copy.deepcopy(f['other_meta'])

            if 'stats' in f:
                meta['stats'] = stats_of(f['stats'])

            fs = change.add_file(meta=meta)

            if f.get('container_encoding'):
                fs.encoding = f['container_encoding']

            analysed = apply_diff(fs, f)
            fexp.append(analysed)

        expect.append(fexp)

    return diffx, expect


def undecodable_tail(f):
    if not f.get('cut_tail') or f.get('misdeclare') or \
            f['kind'] != 'text' or f.get('redeclare_only'):
        return b''

    enc = f['encoding']

    if enc in ('utf-8', 'ascii'):
        return b'\xc3'

    if enc and enc.startswith(('utf-16', 'utf-32')):
        return b'\x00'

    return b''


def apply_diff(fs, f):
    """Give the file section the diff a description stands for; returns
    (insertions, deletions) if it is to be analysed, else None."""
    if f.get('redeclare_only'):
        fs.diff_encoding = f['encoding']
        data, ins, dels = diff_bytes(f)
        return (ins, dels) if data else None

    fs.diff_section.options.clear()
    analysed = None

    if f['kind'] in ('text', 'binary', 'damaged'):
        data, ins, dels = diff_bytes(f)

        if f['kind'] == 'damaged':
            data, ok = damage_bytes(f)

            if not ok:
                f = dict(f, kind='text')
                data, ins, dels = diff_bytes(f)

        tail = undecodable_tail(f)

        if tail and data:
            # bytes that stop in the middle of a character at the very end:
            # the diff cannot be decoded, so it is not analysed
            data += tail

        fs.diff = data

        if f['encoding'] is not None:
            fs.diff_encoding = 'latin-1' if f.get('misdeclare') \
                else f['encoding']

        if f['declare_le']:
            fs.diff_line_endings = 'dos' if f['crlf'] else 'unix'

        if f['kind'] == 'binary':
            fs.diff_type = 'binary'
        elif f['declare_type']:
            fs.diff_type = 'text'

        if f['kind'] == 'text' and data:
            # a wrongly declared single-byte encoding over UTF-16/32 bytes:
            # no line can start with "@@", so there are no hunks at all
            analysed = (0, 0) if f.get('misdeclare') else (ins, dels)

            if tail:
                analysed = None
    elif f['kind'] == 'empty':
        fs.diff = b''
    elif fs.diff_section.content is not None:
        fs.diff = b''

    return analysed


def damage_bytes(f):
    """Render the diff with the last counting line of the last hunk removed
    (the header keeps its counts): an unparsable diff."""
    d = copy.deepcopy(f['diff'])
    target = None

    for e in reversed(d['hunks']):
        body = e['hunk']['body']
        counting = [i for i, (k, _) in enumerate(body) if k != 'marker']

        if counting:
            target = (e, counting[-1])
            break

    if target is None:
        return b'', False

    # render manually: lines of the intact diff minus that line, and nothing
    # after it (so the hunk really ends early)
    lines = list(d['pre'])

    for e in d['hunks']:
        hl, _ = hunks.hunk_lines(e['hunk'])

        if e is target[0] and f.get('flip_sign'):
            # the whole last hunk, one counting line with the other sign:
            # one side comes up short, the other long, by the same amount
            body = list(hl)
            k = 1 + target[1]
            sign = body[k][:1]
            body[k] = {b' ': b'+', b'+': b'-', b'-': b'+'}[sign] + body[k][1:]
            lines.extend(body)
            break

        if e is target[0]:
            lines.extend(hl[:1 + target[1]])

            if f.get('foreign_line'):
                # ... or rather: that line is replaced by one that is no
                # context / insert / delete / marker line, and the diff
                # goes on
                lines.append(f['foreign_line'].encode('ascii'))
                lines.extend(hl[2 + target[1]:])
                lines.extend(e['after'])
                continue

            break

        lines.extend(hl)
        lines.extend(e['after'])

    return render_lines(lines, f, force_final=True), True


def initial_metas(case):
    """Expected metadata before any statistics were generated."""
    main = {}

    if 'main_stats' in case:
        main = {'stats': copy.deepcopy(case['main_stats']), 'top': 1}

    changes = []

    for c in case['changes']:
        cm = {}

        if 'stats' in c:
            cm = {'stats': copy.deepcopy(c['stats']), 'id': 'abc'}

        files = []

        for f in c['files']:
            fm = copy.deepcopy(f['other_meta'])

            if 'stats' in f:
                fm['stats'] = copy.deepcopy(f['stats'])

            files.append(fm)

        changes.append((cm, files))

    return main, changes


def model_generate(metas, expect):
    """The property's arithmetic: new expected metadata after one
    generate_stats() given which files are analysed with which counts."""
    main, changes = copy.deepcopy(metas)
    total = {'changes': len(changes), 'files': 0, 'insertions': 0,
             'deletions': 0, 'lines changed': 0}

    for ci, (cm, files) in enumerate(changes):
        csum = {'files': len(files), 'insertions': 0, 'deletions': 0,
                'lines changed': 0}

        for fi, fm in enumerate(files):
            a = expect[ci][fi]

            if a is not None:
                fm.setdefault('stats', {}).update(
                    {'insertions': a[0], 'deletions': a[1],
                     'lines changed': a[0] + a[1]})

            reported = fm.get('stats', {})
            csum['insertions'] += reported.get('insertions', 0)
            csum['deletions'] += reported.get('deletions', 0)
            csum['lines changed'] += reported.get('lines changed', 0)

        cm.setdefault('stats', {}).update(csum)

        for k in ('files', 'insertions', 'deletions', 'lines changed'):
            total[k] += csum[k]

    main.setdefault('stats', {}).update(total)
    return main, changes


def compare_metas(diffx, metas, expect, case, st, phase):
    main, changes = metas

    for ci, ((cm, files), change) in enumerate(zip(changes, diffx.changes)):
        for fi, (fm, fs) in enumerate(zip(files, change.files)):
            if not trees.snap_eq(fs.meta, fm):
                a = expect[ci][fi]
                f = case['changes'][ci]['files'][fi]

                if phase == 2 and 'then' in f:
                    f = f['then']

                kind = ('wrong-file-stats' if a is not None else
                        'unanalysed-file-meta-changed')
                st.violation(kind + ('' if phase == 1 else '-after-edit'),
                             'change %d file %d (%s, encoding %s%s, %s): '
                             'meta %r, expected %r'
                             % (ci, fi, f['kind'], f.get('encoding'),
                                ' declared as latin-1'
                                if f.get('misdeclare') else '',
                                'crlf' if f.get('crlf') else 'lf',
                                fs.meta, fm), case)
                return False

        if not trees.snap_eq(change.meta, cm):
            st.violation('wrong-change-stats' +
                         ('' if phase == 1 else '-after-edit'),
                         'change %d: %r, expected %r' % (ci, change.meta, cm),
                         case)
            return False

    if not trees.snap_eq(diffx.meta, main):
        st.violation('wrong-total-stats' + ('' if phase == 1
                                            else '-after-edit'),
                     '%r, expected %r' % (diffx.meta, main), case)
        return False

    return True


def _strip_meta(s):
    name, sid, opts, content, children = s

    if name == 'DiffXMetaSection':
        content = None

    return [name, sid, opts, content, [_strip_meta(c) for c in children]]


def run_case(case, st):
    ns = sut.load()
    diffx, expect = build_tree(case)
    before = trees.snapshot(diffx)
    nfiles = sum(len(c['files']) for c in case['changes'])
    analysed = sum(1 for fe in expect for a in fe if a is not None)
    multibyte = any(f.get('encoding') in ('utf-16', 'utf-16-le', 'utf-32-be',
                                          'cp037', 'utf-32')
                    for c in case['changes'] for f in c['files']
                    if f['kind'] == 'text')
    edited = any('then' in f for c in case['changes'] for f in c['files'])
    st.case(case, nontrivial=analysed >= 2 or (analysed >= 1 and multibyte),
            classes=['changes-%d' % len(case['changes']),
                     'files-%d' % min(nfiles, 8),
                     'analysed-%d' % min(analysed, 6)] +
            (['multibyte-or-ebcdic-diff'] if multibyte else []) +
            (['edited-and-regenerated'] if edited else []))

    try:
        diffx.generate_stats()
    except Exception as e:
        where = sut.innermost_pydiffx_frame(e)
        st.violation('generate_stats-raised:%s@%s' % (type(e).__name__,
                                                      where[1]),
                     repr(e), case)
        return

    metas = model_generate(initial_metas(case), expect)

    if not compare_metas(diffx, metas, expect, case, st, 1):
        return

    # ---- non-destructive: nothing but the meta contents changed ---------
    after = trees.snapshot(diffx)

    if not trees.snap_eq(_strip_meta(before), _strip_meta(after)):
        st.violation('generate_stats-changed-something-else',
                     trees.snap_diff(_strip_meta(before), _strip_meta(after)),
                     case)
        return

    # ---- idempotent -------------------------------------------------------
    try:
        diffx.generate_stats()
    except Exception as e:
        st.violation('second-generate_stats-raised', repr(e), case)
        return

    if not trees.snap_eq(trees.snapshot(diffx), after):
        st.violation('not-idempotent',
                     trees.snap_diff(after, trees.snapshot(diffx)), case)
        return

    # ---- history: edit some diffs, generate again ---------------------------
    if not edited:
        return

    expect2 = []

    for c, change in zip(case['changes'], diffx.changes):
        row = []

        for f, fs in zip(c['files'], change.files):
            if 'then' in f:
                row.append(apply_diff(fs, f['then']))
            else:
                row.append(apply_diff(fs, f))

        expect2.append(row)

    try:
        diffx.generate_stats()
    except Exception as e:
        st.violation('generate_stats-raised-after-edit', repr(e), case)
        return

    metas2 = model_generate(metas, expect2)
    compare_metas(diffx, metas2, expect2, case, st, 2)


@hs.composite
def cases(draw):
    case = {'changes': []}

    if draw(hs.integers(0, 2)) == 0:
        case['main_stats'] = {'custom-total': 7, 'changes': 99}

    for _ in range(draw(hs.integers(0, 4))):
        c = {'files': draw(hs.lists(file_desc(), max_size=4))}

        r = draw(hs.integers(0, 5))

        if r in (0, 1):
            c['stats'] = {'files': 42, 'vendor': {'x': 1}}
        elif r == 2:
            c['stats'] = {'changes': 5, 'insertions': 1000}

        c['encoding'] = draw(hs.sampled_from([None, None, 'utf-16',
                                              'utf-32', 'ascii']))

        case['changes'].append(c)

    return case


def checks():
    return [
        HypCheck(
            'trees', cases, run_case,
            budget={'quick': (16, 150), 'thorough': (16, 4000)},
            rule='trees with 0-4 changes x 0-4 files; per file a diff '
                 'assembled from generated hunks with known +/- counts '
                 '(garbage between hunks, LF or CRLF, explicit or implicit '
                 'line_endings, encoding none/utf-8/latin-1/utf-16/'
                 'utf-16-le/utf-32-be/cp037, with or without final newline) '
                 'or a binary / empty / absent / damaged diff; pre-existing '
                 'stats dictionaries with custom keys at all three levels; '
                 'after generate_stats(): exact file figures, additive '
                 'change and total figures, everything else unchanged, '
                 'second call changes nothing; a third of the files are then '
                 'given another diff (or the correct encoding after a wrong '
                 'one) and the statistics generated again must follow the '
                 'same arithmetic from the current state; changes and files '
                 'may declare their own (irrelevant) encodings; non-trivial = >= 2 analysed '
                 'files, or an analysed file in a multi-byte/EBCDIC '
                 'encoding'),
    ]
