"""C14 -- unified-diff hunk parser reports exact hunk geometry or a
positioned error."""

from hypothesis import strategies as hs

from dxv import sut, hunks
from dxv.engine import HypCheck, EnumCheck

ASSUMPTIONS = [
    'a hunk is complete as soon as both sides have seen the number of lines '
    'its header announces; a "\\ No newline" marker placed after the last '
    'counting line is therefore a non-hunk line (pinned by '
    'test_with_no_newline_marker)',
    'without garbage tolerance parsing stops at the first non-hunk line '
    'outside a hunk and num_processed_lines is the number of lines before it',
    'lines are passed without line ends, or with a kept LF',
]

GEOM_KEYS = ('start_line', 'num_lines', 'first_changed_line',
             'last_changed_line', 'num_lines_changed')


def expected_for(lines, exp, tolerant):
    if tolerant or exp['first_outside'] is None:
        return {'hunks': exp['hunks'],
                'total_inserts': exp['total_inserts'],
                'total_deletes': exp['total_deletes'],
                'num_processed_lines': len(lines)}

    # only the hunks that end before the first outside line
    cut = exp['first_outside']
    kept = []
    pos = 0
    # recompute hunk extents
    i = 0
    geo = list(exp['hunks'])
    idx = 0

    while i < cut and idx < len(geo):
        if hunks.is_header(lines[i]):
            g = geo[idx]
            # the hunk spans until its counts are met
            oi = mi = 0
            j = i

            while not (oi >= g['orig']['num_lines'] and
                       mi >= g['modified']['num_lines']):
                j += 1
                ln = lines[j]

                if ln.startswith(b'-'):
                    oi += 1
                elif ln.startswith(b'+'):
                    mi += 1
                elif ln.startswith(b' '):
                    oi += 1
                    mi += 1

            if j < cut:
                kept.append(g)

            idx += 1
            i = j + 1
        else:
            i += 1

    return {'hunks': kept,
            'total_inserts': sum(g['modified']['num_lines_changed']
                                 for g in kept),
            'total_deletes': sum(g['orig']['num_lines_changed']
                                 for g in kept),
            'num_processed_lines': cut}


def compare(result, want):
    if not isinstance(result, dict):
        return 'result-not-a-dict', repr(result)

    for k in ('total_inserts', 'total_deletes', 'num_processed_lines'):
        if result.get(k) != want[k]:
            return ('wrong-' + k.replace('_', '-'),
                    '%s = %r, expected %r' % (k, result.get(k), want[k]))

    got = result.get('hunks')

    if not isinstance(got, list) or len(got) != len(want['hunks']):
        return ('wrong-hunk-count', '%r hunks, expected %d'
                % (len(got) if isinstance(got, list) else got,
                   len(want['hunks'])))

    for n, (g, w) in enumerate(zip(got, want['hunks'])):
        if g.get('context') != w['context']:
            return ('wrong-context', 'hunk %d: %r, expected %r'
                    % (n, g.get('context'), w['context']))

        for side in ('orig', 'modified'):
            for k in GEOM_KEYS:
                if g.get(side, {}).get(k) != w[side][k]:
                    return ('wrong-geometry:%s' % k,
                            'hunk %d %s.%s = %r, expected %r'
                            % (n, side, k, g.get(side, {}).get(k),
                               w[side][k]))

        for k in ('lines_of_context_pre', 'lines_of_context_post'):
            if g.get(k) != w[k]:
                return ('wrong-' + k.replace('_', '-'),
                        'hunk %d %s = %r, expected %r' % (n, k, g.get(k),
                                                          w[k]))

    return None


def parse(lines, tolerant, work=None):
    """``work``: the list object handed to the parser (a fresh copy of
    ``lines`` unless the caller wants to hand over the same one again)."""
    ns = sut.load()

    if work is None:
        work = list(lines)

    try:
        if not tolerant and len(lines) % 2:
            # the documented default
            return ns.unified_diffs.get_unified_diff_hunks(work), None

        return ns.unified_diffs.get_unified_diff_hunks(
            work, ignore_garbage=tolerant), None
    except Exception as e:
        return None, e


def check_result_not_shared(lines, tolerant, result):
    """The returned dictionary belongs to the caller: scribbling over it
    must not change what a later call with the same lines returns."""
    import copy
    want = copy.deepcopy(result)

    try:
        result['hunks'].append({'scribble': True})

        for h in result['hunks'][:-1]:
            h['orig']['start_line'] = -99
            h.clear()

        result['total_inserts'] = -1
    except Exception:
        return None

    again, err = parse(lines, tolerant)

    if err is not None or again != want:
        return ('result-shared-between-calls',
                'after the caller edited a result, parsing the same lines '
                'again gives %r' % (_short(again if err is None else err),))

    return None


def _short(v):
    s = repr(v)
    return s if len(s) < 300 else s[:300] + '...'


def run_wellformed(case, st):
    ns = sut.load()
    lines, exp = hunks.diff_lines(case['diff'])
    tolerant = case['tolerant']
    nh = len(case['diff']['hunks'])
    st.case(case, nontrivial=nh >= 1,
            classes=['hunks-%d' % nh, 'tolerant' if tolerant else 'strict',
                     'kept-ends' if case['keep_ends'] else 'bare-lines',
                     'garbage-present' if exp['first_outside'] is not None
                     else 'hunks-only'])

    if not lines:
        st.cls('empty-list')

    feed = [l + b'\n' for l in lines] if case['keep_ends'] else lines
    result, err = parse(feed, tolerant)

    if err is not None:
        st.violation('wellformed-diff-raised:%s' % type(err).__name__,
                     '%r on %d lines' % (err, len(lines)), case)
        return

    want = expected_for(lines, exp, tolerant)
    res = compare(result, want)

    if res is not None:
        st.violation(res[0], res[1], case)
        return

    res = check_result_not_shared(feed, tolerant, result)

    if res is not None:
        st.violation(res[0], res[1], case)


def damaged_lines(case):
    """Returns (lines, bad index 0-based, bad line) for a damage case, or
    None if the damage does not apply."""
    lines, exp = hunks.diff_lines(case['diff'])
    d = case['damage']
    # locate hunk extents (header index, last counting index)
    extents = []
    i = 0

    for entry in case['diff']['hunks']:
        hl, last_counting = hunks.hunk_lines(entry['hunk'])
        # find where this hunk starts
        start = None

        for k in range(i, len(lines)):
            if lines[k] is hl[0] or lines[k] == hl[0]:
                start = k
                break

        extents.append((start, start + last_counting, len(hl)))
        i = start + len(hl) + len(entry['after'])

    with_body = [e for e in extents if e[1] > e[0]]

    if not with_body:
        return None

    start, last, _n = with_body[d['hunk'] % len(with_body)]
    # a counting line inside the hunk
    counting = [k for k in range(start + 1, last + 1)
                if lines[k][:1] in (b' ', b'+', b'-')]
    k = counting[d['pos'] % len(counting)]

    if d['kind'] == 'flip':
        # one side of the last hunk comes up short (and the other long) by
        # changing the sign of a counting line; nothing follows the hunk,
        # so it ends early at the end of the list
        start, last, _n = with_body[-1]
        counting = [i for i in range(start + 1, last + 1)
                    if lines[i][:1] in (b' ', b'+', b'-')]
        k = counting[d['pos'] % len(counting)]
        sign = lines[k][:1]
        other = {b' ': b'+', b'+': b'-', b'-': b'+'}[sign]
        new = list(lines[:last + 1])
        new[k] = other + new[k][1:]
        return new, len(new) - 1, new[-1]

    if d['kind'] == 'inflate':
        # the first hunk claims far more lines than the whole input holds;
        # what interrupts it is the next hunk's header (named in the
        # error), not the end of the input
        if len(extents) < 2 or any(e['after'] for e in case['diff']['hunks']):
            return None

        first = extents[0]
        nxt = extents[1][0]
        header = lines[first[0]]
        m = hunks.HEADER_RE.match(header)

        if m is None or nxt != first[0] + first[2]:
            return None

        oc = int(m.group(3) or 1) * 10 + 30
        mc = int(m.group(6) or 1) * 10 + 30
        new = list(lines)
        new[first[0]] = (b'@@ -%s,%d +%s,%d @@' % (m.group(1), oc,
                                                   m.group(4), mc) +
                         (m.group(7) or b''))

        if any(l[:1] not in (b' ', b'+', b'-') and l != hunks.MARKER
               for l in new[first[0] + 1:nxt]):
            return None

        return new, nxt, new[nxt]

    if d['kind'] == 'truncate':
        # cut so that the hunk is incomplete: keep lines[:k]
        cut = lines[:k]
        return cut, len(cut) - 1, cut[-1]

    if d['kind'] == 'replace':
        new = list(lines)
        new[k] = d['line']
        return new, k, d['line']

    # a valid header inserted before completion
    new = list(lines)
    new.insert(k, b'@@ -7,2 +7,2 @@')
    return new, k, b'@@ -7,2 +7,2 @@'


def run_damaged(case, st):
    ns = sut.load()
    dmg = damaged_lines(case)

    if dmg is None:
        st.case(case, nontrivial=False, classes=['damage-not-applicable'])
        return

    lines, bad, bad_line = dmg
    st.case(case, nontrivial=True,
            classes=['damage:' + case['damage']['kind'],
                     'tolerant' if case['tolerant'] else 'strict'])

    # without garbage tolerance, parsing may legitimately stop at a non-hunk
    # line before the damage is reached
    if not case['tolerant']:
        _l, exp = hunks.diff_lines(case['diff'])

        if exp['first_outside'] is not None and exp['first_outside'] <= bad:
            st.cls('damage-after-stop-point')
            return

    work = list(lines)
    result, err = parse(lines, case['tolerant'], work)

    if err is not None:
        # the caller parses the very same list once more (after logging the
        # first failure, say): the same line is named
        _r2, err2 = parse(lines, case['tolerant'], work)

        if type(err2) is not type(err) or \
                getattr(err2, 'line_num', None) != getattr(err, 'line_num',
                                                           None) or \
                getattr(err2, 'line', None) != getattr(err, 'line', None):
            st.violation('second-parse-of-the-same-list-differs',
                         'first: %r (line %r), second: %r (line %r); the '
                         'list %s' % (err, getattr(err, 'line_num', None),
                                      err2, getattr(err2, 'line_num', None),
                                      'was changed by the parser'
                                      if work != list(lines)
                                      else 'is unchanged'), case)
            return

    if err is None:
        st.violation('damaged-hunk-accepted:' + case['damage']['kind'],
                     'line %d %r; result totals +%s -%s'
                     % (bad + 1, bad_line, result.get('total_inserts'),
                        result.get('total_deletes')), case)
        return

    if not isinstance(err, ns.MalformedHunkError):
        st.violation('damaged-hunk-wrong-exception:%s' % type(err).__name__,
                     repr(err), case)
        return

    if err.line_num != bad + 1 or err.line != bad_line:
        st.violation('error-names-wrong-line',
                     'error names line %r %r, the damage is at line %d %r'
                     % (err.line_num, err.line, bad + 1, bad_line), case)


def run_arbitrary(case, st):
    ns = sut.load()
    lines = case['lines']
    st.case(case, nontrivial=len(lines) >= 2,
            classes=['empty-list'] if not lines else
            ['lines-%d' % min(len(lines), 10)])
    result, err = parse(lines, case['tolerant'])

    if err is not None and not isinstance(err, ns.MalformedHunkError):
        st.violation('stray-exception:%s' % type(err).__name__,
                     '%r for %r' % (err, lines[:6]), case)
        return

    if err is None:
        if not isinstance(result, dict) or \
                not isinstance(result.get('hunks'), list):
            st.violation('result-not-a-dict', repr(result), case)
            return

        n = result.get('num_processed_lines')

        if type(n) is not int or not 0 <= n <= len(lines):
            st.violation('processed-lines-out-of-range',
                         '%r of %d lines' % (n, len(lines)), case)
            return

        res = check_result_not_shared(lines, case['tolerant'], result)

        if res is not None:
            st.violation(res[0], res[1], case)


@hs.composite
def wellformed(draw):
    return {'diff': draw(hunks.diff_st()), 'tolerant': draw(hs.booleans()),
            'keep_ends': draw(hs.integers(0, 3)) == 0}


@hs.composite
def damaged(draw):
    return {
        'diff': draw(hunks.diff_st(max_hunks=3)),
        'tolerant': draw(hs.booleans()),
        'damage': {
            'kind': draw(hs.sampled_from(['truncate', 'replace', 'replace',
                                          'header', 'flip', 'inflate'])),
            'hunk': draw(hs.integers(0, 5)),
            'pos': draw(hs.integers(0, 20)),
            'line': draw(hs.sampled_from(
                [b'', b'garbage', b'@@ not a header', b'diff --git a b',
                 b'\\ No newline', b'\\ no newline at end of file',
                 b'#.change:', b'\ttab', b'@@', b'\\', b'x+', b'\r',
                 b'g' * 1023, b'g' * 1025, b'@@ ' + b'h' * 5000,
                 b'z' * 70000])),
        },
    }


@hs.composite
def arbitrary(draw):
    tok = hs.one_of(
        hs.sampled_from(hunks.GARBAGE + hunks.PAYLOADS +
                        [b'@@ -1 +1 @@', b'@@ -1,2 +1,2 @@', b'@@ -0,0 +1 @@',
                         b'+a', b'-b', b' c', hunks.MARKER, b'@@ -1,0 +1,0 @@',
                         b'@@ -3,1 +3,0 @@ ctx']),
        hs.binary(max_size=8))
    return {'lines': draw(hs.lists(tok, max_size=12)),
            'tolerant': draw(hs.booleans())}


BIG = (99, 100, 101, 127, 128, 250, 1000, 4096)


def big_chunks(tier, seed):
    return [(n, shape) for n in BIG for shape in ('+', '-', ' ', 'mix')]


def run_big_chunk(chunk, st):
    """One large hunk (a whole new or deleted file, a long rewrite), whole
    and cut short by 1, 2, half and all but one of its lines, alone and
    behind another hunk, both garbage modes."""
    ns = sut.load()
    n, shape = chunk
    body = [[shape if shape != 'mix' else ' +-'[(i * 7 + n) % 3],
             b'l%d' % i] for i in range(n)]
    big = {'orig_start': 0 if shape == '+' else 1,
           'mod_start': 0 if shape == '-' else 1, 'body': body,
           'context': None, 'omit_one': [False, False]}
    small = {'orig_start': 5, 'mod_start': 5,
             'body': [[' ', b'c'], ['-', b'o'], ['+', b'n']],
             'context': b'ctx', 'omit_one': [False, False]}
    evals = 0

    for first in (None, small):
        d = {'pre': [], 'hunks': ([{'hunk': first, 'after': []}]
                                  if first else []) +
             [{'hunk': big, 'after': []}]}
        lines, exp = hunks.diff_lines(d)

        for tolerant in (False, True):
            result, err = parse(lines, tolerant)
            evals += 1
            case = {'big': [n, shape], 'behind': first is not None,
                    'tolerant': tolerant}

            if err is not None:
                st.violation('wellformed-diff-raised:%s' % type(err).__name__,
                             repr(err), case)
            else:
                res = compare(result, expected_for(lines, exp, tolerant))

                if res is not None:
                    st.violation(res[0], res[1], case)

            for cut in (1, 2, n // 2, n - 1):
                short = lines[:len(lines) - cut]
                result, err = parse(short, tolerant)
                evals += 1
                c = dict(case, cut=cut)

                if err is None:
                    st.violation('damaged-hunk-accepted:truncate',
                                 '%d of %d body lines missing; totals +%s -%s'
                                 % (cut, n, result.get('total_inserts'),
                                    result.get('total_deletes')), c)
                elif not isinstance(err, ns.MalformedHunkError):
                    st.violation('damaged-hunk-wrong-exception:%s'
                                 % type(err).__name__, repr(err), c)
                elif err.line_num != len(short) or err.line != short[-1]:
                    st.violation('error-names-wrong-line',
                                 'names line %r, the input ends at line %d'
                                 % (err.line_num, len(short)), c)

    st.bulk(evals, evals, sample={'big': [n, shape]})


def run_big_case(case, st):
    run_big_chunk(tuple(case['big']), st)
    st.case(case, nontrivial=True)


def checks():
    return [
        HypCheck(
            'wellformed', wellformed, run_wellformed,
            budget={'quick': (8, 300), 'thorough': (16, 15000)},
            rule='0-5 generated hunks (start lines incl. 0, counts incl. 0 '
                 'and omitted "1", payloads that look like file headers / '
                 'hunk headers / markers, markers anywhere, header context) '
                 'with optional garbage between and file-header lines '
                 'before, both garbage modes, lines bare or with a kept LF; '
                 'the returned entries, totals and number of lines consumed '
                 'must equal the geometry carried by the generator; '
                 'non-trivial = >= 1 hunk'),
        HypCheck(
            'damaged', damaged, run_damaged,
            budget={'quick': (8, 250), 'thorough': (16, 10000)},
            rule='single-point damages of generated hunk sequences: '
                 'truncation inside a hunk, a counting line replaced by a '
                 'non-hunk line (incl. empty, near-markers), a valid header '
                 'inserted before completion; must raise MalformedHunkError '
                 'naming exactly that line; non-trivial = the damage applies'),
        HypCheck(
            'arbitrary', arbitrary, run_arbitrary,
            budget={'quick': (8, 300), 'thorough': (16, 15000)},
            rule='arbitrary lists of byte lines incl. the empty list: a '
                 'result dictionary or MalformedHunkError, nothing else; '
                 'non-trivial = >= 2 lines'),
        EnumCheck(
            'big-hunks', big_chunks, run_big_chunk, run_case=run_big_case,
            exhaustive=False,
            rule='one hunk of 99..4096 lines (all insertions, all '
                 'deletions, all context, mixed), alone and behind another '
                 'hunk, both garbage modes: right geometry when whole; cut '
                 'short by 1, 2, half and all but one of its lines it must '
                 'raise MalformedHunkError naming the last line present; '
                 'all non-trivial',
            bound={'quick': '8 sizes x 4 shapes x 2 positions x 2 modes x 5 '
                            'lengths', 'thorough': 'same'}),
    ]
