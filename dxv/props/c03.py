"""C03 -- reader yields exactly what the specification says a well-formed
file contains; single spec violations are rejected at the offending
section."""

import glob
import os

from dxv import sut, spec, foreign
from dxv.engine import EnumCheck, HypCheck, VERIF

ASSUMPTIONS = [
    'logical lines: one per header, one per content line (content split on '
    'that section\'s newline); empty lines between sections are not counted',
    'the error line of a single-defect mutation must fall in the logical '
    'span of the offending section (its header line .. its last content '
    'line), because header-level and content-level errors are reported at '
    'different lines of that section',
    'multi-byte encoded texts avoid characters whose code units contain '
    '0x0A/0x0D bytes (byte-level newline search would be ambiguous)',
    'a preamble without any declared encoding is returned as bytes '
    '(encodings.rst rule 1); metadata is parsed as JSON regardless',
]


def judge_plain(r):
    ns = sut.load()
    recs, err = sut.read_records(r.data)

    if err is not None:
        return ('rejected-well-formed-file:%s' % type(err).__name__,
                '%r after %d records' % (err, len(recs)))

    if len(recs) != len(r.records):
        return ('record-count', '%d records, expected %d'
                % (len(recs), len(r.records)))

    return foreign.compare(recs, r.records)


def judge_defect(doc, index, kind):
    ns = sut.load()
    m = foreign.render(foreign.with_defect(doc, index, kind))
    recs, err = sut.read_records(m.data)
    tag = kind

    if err is None:
        return ('defect-accepted:' + tag,
                'section %d (%s): file accepted with %d records'
                % (index, m.records[index]['section'], len(recs)))

    if not isinstance(err, ns.DiffXParseError):
        return ('defect-wrong-exception:%s:%s' % (tag, type(err).__name__),
                repr(err))

    if len(recs) != index:
        return ('defect-wrong-prefix:' + tag,
                '%d records before the error, expected %d' % (len(recs),
                                                              index))

    res = foreign.compare(recs, m.records[:index])

    if res is not None:
        return 'defect-prefix-' + res[0], res[1]

    lo, hi = m.defect_span

    if not (isinstance(err.linenum, int) and lo <= err.linenum <= hi):
        return ('defect-error-line:' + tag,
                'linenum %r not in the section span %d..%d (%s)'
                % (err.linenum, lo, hi, err))

    return None


def run_case(doc, st):
    r = foreign.render(doc)
    foreign.cross_check(r)
    st.case(doc, nontrivial=len(r.freedoms) >= 2,
            classes=sorted(r.freedoms) +
            ['sections-%d' % min(len(r.records), 20)])
    res = judge_plain(r)

    if res is not None:
        st.violation(res[0], res[1], doc)
        return

    for index, kind in foreign.applicable_defects(doc):
        st.cls('mutation:' + kind)
        res = judge_defect(doc, index, kind)

        if res is not None:
            st.violation(res[0], res[1],
                         foreign.with_defect(doc, index, kind))


def run_defect_case(doc, st):
    """Replay entry: a doc that carries a 'defect'."""
    d = doc.get('defect')

    if not d:
        return run_case(doc, st)

    base = dict(doc)
    base.pop('defect')
    res = judge_defect(base, d['index'], d['kind'])
    st.case(doc, nontrivial=True)

    if res is not None:
        st.violation(res[0], res[1], doc)


# -- the specification's own example files --------------------------------

def example_chunks(tier, seed):
    return sorted(glob.glob(os.path.join(VERIF, 'corpus', '*.diff')))


def run_example(path, st):
    with open(path, 'rb') as fp:
        data = fp.read()

    run_example_case({'name': os.path.basename(path), 'data': data}, st)


def run_example_case(case, st):
    data = case['data']
    exp, err = spec.ref_parse(data)

    if err is not None:
        raise sut.HarnessError('reference parser rejects %s: %s'
                               % (case['name'], err.reason))

    recs, rerr = sut.read_records(data)
    st.bulk(1, 1, sample={'name': case['name'], 'sections': len(exp)})

    if rerr is not None:
        st.violation('rejected-spec-example', '%s: %r' % (case['name'], rerr),
                     case)
        return

    if len(recs) != len(exp):
        st.violation('record-count', case['name'], case)
        return

    res = foreign.compare(recs, exp)

    if res is not None:
        st.violation(res[0], '%s: %s' % (case['name'], res[1]), case)


def checks():
    return [
        HypCheck(
            'foreign-files', lambda: foreign.docs(
                unknown_options=True,
                extra_codecs=('utf-7', 'iso2022_jp', 'hz')),
            run_defect_case,
            budget={'quick': (16, 150), 'thorough': (16, 4000)},
            rule='well-formed files from an independent spec-derived '
                 'generator (shuffled options, omitted optional options, '
                 'blank lines, CRLF header lines, compact/2-space/unsorted/'
                 'raw-UTF-8 JSON, unindented blank preamble lines, sections '
                 'without any encoding, 15 codecs) and, for each file, every '
                 'applicable single-defect mutation (bad/missing version, '
                 'missing length, no final newline, format=html, invalid '
                 'JSON, line_endings=c64); non-trivial = file uses >= 2 '
                 'producer freedoms (each such file also runs all its '
                 'mutations)'),
        EnumCheck(
            'spec-examples', example_chunks, run_example,
            run_case=run_example_case,
            rule='the seven example files of the specification (committed '
                 'copies under corpus/), expected records from the strict '
                 'reference parser; each counts as non-trivial',
            bound={'quick': '7 files', 'thorough': '7 files'}),
    ]
