"""C06 -- parse then re-serialise: byte-identical on canonical files,
idempotent on others."""

from hypothesis import strategies as hs

from dxv import sut, spec, gen, foreign, trees, roundtrip
from dxv.engine import HypCheck

ASSUMPTIONS = [
    'canonical files = output of the streaming writer for generated '
    'programs and of to_bytes for generated serialisable trees',
    'whether the object model accepts a foreign file is predicted by the '
    'model (every preamble has an effective encoding, every metadata value '
    'is a JSON object), not observed; files the model rejects are counted '
    'and not judged here (C08 judges how they fail)',
    'files carrying unknown options are outside the property\'s quantifier',
    'foreign files with a present-but-empty metadata object ({}) are '
    'excluded and counted: the object model documents that empty content '
    'sections are omitted when writing and the writer refuses empty '
    'metadata',
]


def reparse_cycle(data, st, case, label):
    """from_bytes(data).to_bytes() for a canonical file: identical bytes."""
    ns = sut.load()

    try:
        tree = ns.DiffX.from_bytes(data)
    except Exception as e:
        st.violation('%s-not-parsed:%s' % (label, type(e).__name__),
                     repr(e), case)
        return

    try:
        again = tree.to_bytes()
    except Exception as e:
        st.violation('%s-not-reserialised:%s' % (label, type(e).__name__),
                     repr(e), case)
        return

    if again != data:
        i = next((k for k in range(min(len(again), len(data)))
                  if again[k] != data[k]), min(len(again), len(data)))
        st.violation('%s-bytes-changed' % label,
                     'first difference at byte %d: %r vs %r'
                     % (i, data[max(0, i - 30):i + 40],
                        again[max(0, i - 30):i + 40]), case)


def run_program(program, st):
    labels, nontrivial = gen.program_features(program)
    st.case(program, nontrivial=nontrivial, classes=labels)

    try:
        data = roundtrip.write_program(program)
    except Exception as e:
        st.violation('writer-rejected-valid-program', repr(e), program)
        return

    reparse_cycle(data, st, program, 'writer-file')


def run_tree(tree, st):
    labels, nontrivial = trees.tree_features(tree)
    program = trees.program_of(tree)
    ok, reason = trees.serialisable(program)
    st.case(tree, nontrivial=nontrivial and ok,
            classes=labels + ['serialisable' if ok else 'model-rejects'])

    if not ok:
        st.exclude('tree-not-serialisable')
        return

    try:
        data = trees.build(tree).to_bytes()
    except Exception as e:
        st.violation('serialisable-tree-rejected', repr(e), tree)
        return

    reparse_cycle(data, st, tree, 'tree-file')


def content_list(recs):
    out = []

    for r in recs:
        kind = spec.kind_of(r['section'])
        c = None

        if kind != 'container':
            c = r.get(foreign.CONTENT_KEY[kind])

            if kind == 'meta':
                c = roundtrip.canon_json(c)

        out.append((r['section'], c))

    return out


def run_foreign(doc, st):
    ns = sut.load()
    r = foreign.render(doc)
    empty_meta = any(s.get('value') == {} for s in doc['sections'])
    st.case(doc, nontrivial=(len(r.freedoms) >= 2 and r.model_accepts and
                             not empty_meta),
            classes=sorted(r.freedoms) +
            ['model-accepts' if r.model_accepts else 'model-rejects'])

    if not r.model_accepts:
        st.exclude('object-model-cannot-hold-it')
        return

    if empty_meta:
        # The object model documents that empty content sections are
        # skipped when writing (and the writer refuses empty metadata), so a
        # present-but-empty metadata object cannot be carried over.
        st.exclude('empty-metadata-object')
        return

    try:
        tree = ns.DiffX.from_bytes(r.data)
    except Exception as e:
        st.violation('foreign-file-not-accepted:%s' % type(e).__name__,
                     repr(e), doc)
        return

    try:
        b1 = tree.to_bytes()
    except Exception as e:
        where = sut.innermost_pydiffx_frame(e)
        st.violation('foreign-file-not-reserialised:%s@%s:%s'
                     % (type(e).__name__, where[0], where[1]), repr(e), doc)
        return

    recs0, e0 = sut.read_records(r.data)
    recs1, e1 = sut.read_records(b1)

    if e0 is not None or e1 is not None:
        st.violation('reserialised-file-not-readable', '%r / %r' % (e0, e1),
                     doc)
        return

    if content_list(recs0) != content_list(recs1):
        st.violation('contents-changed-by-reserialising',
                     '%r vs %r' % (_short(content_list(recs0)),
                                   _short(content_list(recs1))), doc)
        return

    try:
        b2 = ns.DiffX.from_bytes(b1).to_bytes()
    except Exception as e:
        st.violation('second-pass-failed:%s' % type(e).__name__, repr(e), doc)
        return

    if b2 != b1:
        st.violation('not-a-fixed-point',
                     'second pass changed the bytes', doc)


def _short(v):
    s = repr(v)
    return s if len(s) < 300 else s[:300] + '...'


def checks():
    return [
        HypCheck(
            'writer-files', lambda: gen.programs(), run_program,
            budget={'quick': (16, 60), 'thorough': (16, 5000)},
            rule='canonical files produced by the streaming writer from '
                 'generated programs: from_bytes(b).to_bytes() == b; '
                 'non-trivial as C01'),
        HypCheck(
            'tree-files',
            lambda: trees.trees(min_changes=1, always_serialisable=True),
            run_tree,
            budget={'quick': (16, 40), 'thorough': (16, 3000)},
            rule='canonical files produced by to_bytes from generated '
                 'trees: byte-identical after parse + serialise; '
                 'non-trivial as C05'),
        HypCheck(
            'foreign-files', lambda: foreign.docs(meta_min_size=1), run_foreign,
            budget={'quick': (16, 60), 'thorough': (16, 5000)},
            rule='well-formed foreign files (shuffled options, blank lines, '
                 'CRLF headers, other JSON styles, omitted optional options '
                 'incl. the main encoding) that the model says the object '
                 'model accepts: from_bytes accepts, to_bytes succeeds, '
                 'same section ids and contents, and a second pass changes '
                 'nothing; non-trivial = model accepts and >= 2 freedoms'),
    ]
