"""C06 -- parse then re-serialise: byte-identical on canonical files,
idempotent on others."""

from hypothesis import strategies as hs

from dxv import sut, spec, gen, foreign, trees, roundtrip
from dxv.engine import HypCheck

ASSUMPTIONS = [
    'canonical files = output of the streaming writer for generated '
    'programs and of to_bytes for generated serialisable trees',
    'whether the object model accepts a foreign file is predicted by the '
    'model (every preamble has an effective encoding, every metadata value '
    'is a JSON object), not observed; files the model rejects are counted '
    'and not judged here (C08 judges how they fail)',
    'files carrying unknown options are outside the property\'s quantifier',
    'foreign files with a present-but-empty metadata object ({}) are '
    'excluded and counted: the object model documents that empty content '
    'sections are omitted when writing and the writer refuses empty '
    'metadata',
]


def reparse_cycle(data, st, case, label):
    """from_bytes(data).to_bytes() for a canonical file: identical bytes."""
    ns = sut.load()

    try:
        tree = ns.DiffX.from_bytes(data)
    except Exception as e:
        st.violation('%s-not-parsed:%s' % (label, type(e).__name__),
                     repr(e), case)
        return

    try:
        again = tree.to_bytes()
    except Exception as e:
        st.violation('%s-not-reserialised:%s' % (label, type(e).__name__),
                     repr(e), case)
        return

    if again != data:
        i = next((k for k in range(min(len(again), len(data)))
                  if again[k] != data[k]), min(len(again), len(data)))
        st.violation('%s-bytes-changed' % label,
                     'first difference at byte %d: %r vs %r'
                     % (i, data[max(0, i - 30):i + 40],
                        again[max(0, i - 30):i + 40]), case)
        return

    # the same object serialised once more: re-serialising is not allowed
    # to use the loaded tree up
    try:
        third = tree.to_bytes()
    except Exception as e:
        st.violation('%s-second-reserialisation-raised:%s'
                     % (label, type(e).__name__), repr(e), case)
        return

    if third != data:
        st.violation('%s-second-reserialisation-differs' % label,
                     '%r vs %r' % (data[:80], third[:80]), case)


def run_program(program, st):
    labels, nontrivial = gen.program_features(program)
    st.case(program, nontrivial=nontrivial, classes=labels)

    try:
        data = roundtrip.write_program(program)
    except Exception as e:
        st.violation('writer-rejected-valid-program', repr(e), program)
        return

    reparse_cycle(data, st, program, 'writer-file')


def run_tree(tree, st):
    labels, nontrivial = trees.tree_features(tree)
    program = trees.program_of(tree)
    ok, reason = trees.serialisable(program)
    st.case(tree, nontrivial=nontrivial and ok,
            classes=labels + ['serialisable' if ok else 'model-rejects'])

    if not ok:
        st.exclude('tree-not-serialisable')
        return

    try:
        data = trees.build(tree).to_bytes()
    except Exception as e:
        st.violation('serialisable-tree-rejected', repr(e), tree)
        return

    reparse_cycle(data, st, tree, 'tree-file')


HOSTILE_FIRST = [
    # files a process may well have parsed earlier: tiny or unindented
    # preambles for every usual indent, hostile option values, garbage
    b'#diffx: encoding=utf-8, version=1.0\n#.preamble: indent=%d, length=1\n\n'
    b'#.change:\n#..file:\n#...meta: length=3\n{}\n' % n
    for n in (1, 2, 4, 7, 8, 13)
] + [
    b'#diffx: encoding=utf-8, version=1.0\n#.preamble: indent=%d, length=2\nx\n'
    b'#.change:\n#..file:\n#...meta: length=3\n{}\n' % n
    for n in (2, 4, 7, 13, 64)
] + [
    b'#diffx: encoding=utf-16, version=1.0\n#.preamble: indent=4, length=3\nabc',
    b'#diffx: version=1.0\n#.meta: length=5\n{"a"\n',
    b'#diffx: version=1.0\n#.change: encoding=cp037\n#..file:\n#...meta: '
    b'length=3\n{}\n#...diff: length=2, line_endings=dos\na\n',
    b'garbage', b'',
]


def run_after_other_parse(case, st):
    from dxv import engine
    labels, nontrivial = gen.program_features(case['program'])
    st.case(case, nontrivial=nontrivial, classes=labels)
    engine.run_isolated(_after_other_parse, case, st)


def _after_other_parse(case, st):
    ns = sut.load()

    for blob in case['first']:
        if isinstance(blob, dict):
            # an ordinary earlier use of the library: write a program, read
            # it back, load it, generate statistics, serialise again
            try:
                data0 = roundtrip.write_program(blob)
                sut.read_records(data0)
                t0 = ns.DiffX.from_bytes(data0)
                t0.generate_stats()
                t0.to_bytes()
            except Exception:
                pass

            continue

        try:
            ns.DiffX.from_bytes(blob)
        except Exception:
            pass

        try:
            list(ns.DiffXReader(__import__('io').BytesIO(blob)))
        except Exception:
            pass

    program = case['program']

    try:
        data = roundtrip.write_program(program)
    except Exception as e:
        st.violation('writer-rejected-valid-program', repr(e), case)
        return

    reparse_cycle(data, st, case, 'writer-file-after-other-parses')
    recs, err = sut.read_records(data)

    if err is not None:
        st.violation('reader-raised-after-other-parses', repr(err), case)
        return

    res = roundtrip.compare_records(program, recs)

    if res is not None:
        st.violation('after-other-parses-' + res[0], res[1], case)


@hs.composite
def after_cases(draw):
    first = draw(hs.lists(hs.sampled_from(HOSTILE_FIRST), min_size=1,
                          max_size=3))

    if draw(hs.booleans()):
        first.append(foreign.render(draw(foreign.docs(max_changes=1,
                                                      max_files=1))).data)

    r = draw(hs.integers(0, 2))

    if r == 1:
        # only ordinary earlier uses
        first = []

    if r >= 1:
        first.insert(0, draw(gen.programs(max_changes=2, max_files=2)))

    return {'first': first,
            'program': draw(gen.programs(max_changes=2, max_files=2))}


def content_list(recs):
    out = []

    for r in recs:
        kind = spec.kind_of(r['section'])
        c = None

        if kind != 'container':
            c = r.get(foreign.CONTENT_KEY[kind])

            if kind == 'meta':
                c = roundtrip.canon_json(c)

        out.append((r['section'], c))

    return out


def run_foreign(doc, st):
    ns = sut.load()
    r = foreign.render(doc)
    empty_meta = any(s.get('value') == {} for s in doc['sections'])
    st.case(doc, nontrivial=(len(r.freedoms) >= 2 and r.model_accepts and
                             not empty_meta),
            classes=sorted(r.freedoms) +
            ['model-accepts' if r.model_accepts else 'model-rejects'])

    if not r.model_accepts:
        # the model says the object model cannot hold this file; if it is
        # accepted all the same, the property's obligations apply to it
        try:
            ns.DiffX.from_bytes(r.data)
        except Exception:
            st.exclude('object-model-cannot-hold-it')
            return

        st.cls('accepted-although-the-model-rejects')

    if empty_meta:
        # The object model documents that empty content sections are
        # skipped when writing (and the writer refuses empty metadata), so a
        # present-but-empty metadata object cannot be carried over.
        st.exclude('empty-metadata-object')
        return

    try:
        tree = ns.DiffX.from_bytes(r.data)
    except Exception as e:
        st.violation('foreign-file-not-accepted:%s' % type(e).__name__,
                     repr(e), doc)
        return

    try:
        b1 = tree.to_bytes()
    except Exception as e:
        where = sut.innermost_pydiffx_frame(e)
        st.violation('foreign-file-not-reserialised:%s@%s:%s'
                     % (type(e).__name__, where[0], where[1]), repr(e), doc)
        return

    recs0, e0 = sut.read_records(r.data)
    recs1, e1 = sut.read_records(b1)

    if e0 is not None or e1 is not None:
        st.violation('reserialised-file-not-readable', '%r / %r' % (e0, e1),
                     doc)
        return

    if content_list(recs0) != content_list(recs1):
        st.violation('contents-changed-by-reserialising',
                     '%r vs %r' % (_short(content_list(recs0)),
                                   _short(content_list(recs1))), doc)
        return

    try:
        b2 = ns.DiffX.from_bytes(b1).to_bytes()
    except Exception as e:
        st.violation('second-pass-failed:%s' % type(e).__name__, repr(e), doc)
        return

    if b2 != b1:
        st.violation('not-a-fixed-point',
                     'second pass changed the bytes', doc)


def _short(v):
    s = repr(v)
    return s if len(s) < 300 else s[:300] + '...'


def _checks():
    return [
        HypCheck(
            'writer-files', lambda: gen.programs(), run_program,
            budget={'quick': (16, 60), 'thorough': (16, 5000)},
            rule='canonical files produced by the streaming writer from '
                 'generated programs: from_bytes(b).to_bytes() == b; '
                 'non-trivial as C01'),
        HypCheck(
            'after-other-parses', after_cases, run_after_other_parse,
            budget={'quick': (16, 25), 'thorough': (16, 1500)},
            rule='in a freshly forked process: first parse 1-4 other files '
                 '(tiny or unindented preambles for every usual indent, '
                 'hostile or truncated files, a foreign file) and/or make an '
                 'ordinary earlier use of the library (write, read, load, '
                 'statistics, serialise another generated program), then write a '
                 'generated program, read it back and run it through the '
                 'parse/serialise cycle: state the library keeps between '
                 'independent calls must not change the outcome; '
                 'non-trivial as C01'),
        HypCheck(
            'tree-files',
            lambda: trees.trees(min_changes=1, always_serialisable=True),
            run_tree,
            budget={'quick': (16, 40), 'thorough': (16, 3000)},
            rule='canonical files produced by to_bytes from generated '
                 'trees: byte-identical after parse + serialise; '
                 'non-trivial as C05'),
        HypCheck(
            'foreign-files', lambda: foreign.docs(meta_min_size=1), run_foreign,
            budget={'quick': (16, 60), 'thorough': (16, 5000)},
            rule='well-formed foreign files (shuffled options, blank lines, '
                 'CRLF headers, other JSON styles, omitted optional options '
                 'incl. the main encoding) that the model says the object '
                 'model accepts: from_bytes accepts, to_bytes succeeds, '
                 'same section ids and contents, and a second pass changes '
                 'nothing; non-trivial = model accepts and >= 2 freedoms'),
    ]


def checks():
    out = _checks()

    for c in out:
        if c.name in ['after-other-parses']:
            c.isolated = True

    return out
