"""C11 -- header lines are accepted iff they match the header grammar."""

import itertools

from dxv import sut, spec
from dxv.engine import EnumCheck, HypCheck

ASSUMPTIONS = [
    'grammar as in the property statement (value class [A-Za-z0-9/._-]+; '
    'the "9-9" printed in the spec is read as "0-9")',
    'values made only of digits, "_" and "-" that are not plain integers '
    '(1_0, --1, -) may be reported as int or verbatim; duplicate keys may '
    'resolve to either value',
]

MAIN = b'#diffx: version=1.0\n'
A15 = [b'a', b'B', b'7', b'_', b'-', b'.', b'/', b' ', b',', b'=', b'#',
       b':', b'+', b'\t', b'\xc3', b'%']
A8 = [b'a', b'1', b'_', b'/', b' ', b',', b'=', b'+']
# for files whose header lines end in CRLF: stray CRs anywhere in the tail
A8C = [b'a', b'1', b'\r', b'_', b' ', b',', b'=', b'+']
# what may stand between / around two well-formed pairs
JUNK = [b',', b' ', b'+', b':', b'#', b'=', b'\t', b'\xff', b'%', b'a',
        b'1', b'.', b'-', b'/', b'_', b'\r', b';', b'"', b'\x00']


def judge_line(line, crlf=False):
    """line: the complete second header line without terminator."""
    ns = sut.load()
    nl = b'\r\n' if crlf else b'\n'
    recs, err = sut.read_records(MAIN[:-1] + nl + line + nl, budget=False)
    parsed = spec.parse_header(line)
    ok = parsed is not None and parsed[0] == '.change'

    if err is not None and not isinstance(err, ns.DiffXParseError):
        return ('wrong-exception:%s' % type(err).__name__,
                '%r -> %r' % (line, err))

    if ok:
        if err is not None:
            return 'rejected-valid-header', '%r -> %s' % (line, err)

        if len(recs) != 2 or recs[1].get('section') != '.change':
            return 'wrong-records', '%r -> %r' % (line, recs)

        want = {}

        for k, v in parsed[1]:
            want.setdefault(k, []).extend(spec.convert_value(v))

        got = recs[1].get('options')

        if (not isinstance(got, dict) or set(got) != set(want) or
                not all(any(type(got[k]) is type(x) and got[k] == x
                            for x in want[k]) for k in want)):
            return 'wrong-options', '%r -> %r' % (line, got)
    else:
        if err is None:
            return 'accepted-invalid-header', '%r -> %r' % (
                line, recs[1:] and recs[1].get('options'))

        if getattr(err, 'linenum', None) != 1:
            return ('error-not-positioned-at-the-header',
                    '%r -> linenum %r (%s)' % (line, getattr(err, 'linenum',
                                                             None), err))

        if len(recs) != 1:
            return 'wrong-records', '%r -> %d records' % (line, len(recs))

    return None


def run_case(case, st):
    line = case['line']
    res = judge_line(line, case.get('crlf', False))
    ok = spec.parse_header(line) is not None
    st.case(case, nontrivial=b'=' in line,
            classes=['valid' if ok else 'invalid',
                     'pairs-%d' % min(line.count(b'='), 4)])

    if res is not None:
        st.violation(res[0], res[1], case)


BOUNDS = {'quick': (5, 7), 'thorough': (6, 8)}


def chunks(tier, seed):
    l15, l8 = BOUNDS[tier]
    out = [('A15', (), 1)]

    for a in range(len(A15)):
        for b in range(len(A15)):
            out.append(('A15', (a, b), l15))

    out.append(('A8', (), 1))

    for a in range(len(A8)):
        for b in range(len(A8)):
            out.append(('A8', (a, b), l8))

    out.append(('A8C', (), 1))

    for a in range(len(A8C)):
        for b in range(len(A8C)):
            out.append(('A8C', (a, b), l8 - 1))

    for a in range(len(JUNK) + 1):
        out.append(('SEP', a, 3 if tier == 'quick' else 4))

    return out


def run_sep_chunk(chunk, st):
    """Two (three) well-formed pairs with every short junk string where
    the separator belongs, optionally one junk byte in front."""
    _which, a, maxlen = chunk
    lead = b'' if a == len(JUNK) else JUNK[a]
    evals = nontrivial = valid = 0
    sample = None

    for n in range(0, maxlen + 1):
        for sep in itertools.product(JUNK, repeat=n):
            sep = b''.join(sep)

            for shape in (b' %sa=b%sc=d', b' %sa=b, e=f%sc=d',
                          b' %sa=b%sc=d, e=f'):
                for crlf in (False, True):
                    line = b'#.change:' + shape % (lead, sep)

                    if b'\r' in line and not crlf:
                        continue

                    res = judge_line(line, crlf)
                    evals += 1
                    nontrivial += 1

                    if spec.parse_header(line) is not None:
                        valid += 1

                        if sample is None:
                            sample = {'line': line, 'crlf': crlf}

                    if res is not None:
                        st.violation(res[0], res[1],
                                     {'line': line, 'crlf': crlf})

    st.bulk(evals, nontrivial, classes={'valid-by-grammar': valid},
            sample=sample)


def run_chunk(chunk, st):
    which, head, maxlen = chunk

    if which == 'SEP':
        return run_sep_chunk(chunk, st)

    alphabet = {'A15': A15, 'A8': A8, 'A8C': A8C}[which]
    crlf = which == 'A8C'
    evals = 0
    nontrivial = 0
    sample = None
    valid = 0

    if not head:
        lengths = range(0, 2)
    else:
        lengths = range(0, maxlen - 1)

    hb = b''.join(alphabet[i] for i in head)

    for n in lengths:
        for tail in itertools.product(alphabet, repeat=n):
            t = hb + b''.join(tail)
            line = b'#.change:' + t
            res = judge_line(line, crlf)
            evals += 1

            if b'=' in t:
                nontrivial += 1

            if spec.parse_header(line) is not None:
                valid += 1

                if sample is None and len(t) >= 4:
                    sample = {'line': line}

            if res is not None:
                st.violation(res[0], res[1], {'line': line, 'crlf': crlf})

    st.bulk(evals, nontrivial, classes={'valid-by-grammar': valid},
            sample=sample)


PREFIXES = [b'#.change:', b'#.change:', b'#.change:', b'#.change',
            b' #.change:', b'#.change::', b'#.Change:', b'#....change:',
            b'#.change :', b'#. change:', b'##.change:', b'.change:',
            b'#.change;', b'#.change:\t', b'#.change:  ', b'#.change: ']


def strategy():
    from hypothesis import strategies as hs
    keych = 'abzAZ09_-'
    valch = 'abzAZ059/._-'
    key = hs.one_of(
        hs.builds(lambda a, b: a + b, hs.sampled_from('abzAZ'),
                  hs.text(alphabet=keych, max_size=6)),
        hs.sampled_from(['encoding', 'encoding', 'length', 'indent',
                         'version', 'format', 'line_endings', 'type',
                         'mimetype']))
    val = hs.one_of(
        hs.text(alphabet=valch, min_size=1, max_size=8),
        hs.sampled_from(['1', '-1', '0', '007', '1_0', '--1', '-', '1-',
                         '/', '/x', 'text/plain', '1.0', 'utf-8', '_',
                         'latin1', 'UTF-8', 'utf8', 'U8', 'L1', 'ASCII',
                         'IBM037', 'utf_16', 'UTF-16LE', 'json', 'dos',
                         '9' * 25, '-0', '1e3', '0x10', '9' * 4300,
                         '9' * 4301, '1' + '0' * 5000, '-' + '9' * 4400]))
    junk = [b'%', b'%s', b'%(x)s', b'{', b'{0}', b'\\', b'+', b':', b'#', b' ', b',', b'=', b'\t', b'\xc3\xa9', b'\xff',
            b'$', b'"', b'\r', b'\x00', b'a', b'9', b'/', b'.', b';', b'(']

    @hs.composite
    def case(draw):
        prefix = draw(hs.sampled_from(PREFIXES))
        pairs = draw(hs.lists(hs.tuples(key, val), min_size=0, max_size=4))

        if pairs and draw(hs.integers(0, 3)) == 0:
            # a repeated key (either value may be reported)
            pairs.append((pairs[0][0], draw(val)))

        sep = draw(hs.sampled_from([', ', ', ', ', ', ',', ' ,', ',  ', ' ']))
        tail = sep.join('%s=%s' % p for p in pairs).encode('ascii')

        if pairs and prefix.endswith(b':'):
            tail = b' ' + tail

        tail = bytearray(tail)

        for _ in range(draw(hs.sampled_from([0, 0, 1, 1, 2]))):
            pos = draw(hs.integers(0, len(tail)))
            what = draw(hs.integers(0, 2))

            if what == 0:
                tail[pos:pos] = draw(hs.sampled_from(junk))
            elif what == 1 and pos < len(tail):
                del tail[pos]
            elif pos < len(tail):
                tail[pos:pos + 1] = draw(hs.sampled_from(junk))

        line = prefix + bytes(tail)
        line = line.replace(b'\n', b'')
        case = {'line': line}

        if draw(hs.integers(0, 2)) == 0:
            case['crlf'] = True
            line = line.replace(b'\r', b'')

        if draw(hs.integers(0, 3)) == 0 and b'=' in line:
            # pad the line to a length around the read-ahead block size
            target = draw(hs.sampled_from([93, 94, 95, 96, 97, 189, 190, 191,
                                           192, 193, 287, 288]))
            extra = target - len(line) - len(b', pad=')

            if extra >= 1:
                line = line + b', pad=' + b'x' * extra

        case['line'] = line
        return case

    return case()


def judge_content_header(case):
    """A metadata / preamble / diff header with generated extra options:
    the options reported are exactly the pairs written, nothing added."""
    ns = sut.load()
    kind, pairs, where = case['kind'], case['pairs'], case['where']
    content = {'meta': b'{}\n', 'preamble': b'p\n', 'diff': b'd\n'}[kind]
    sid = {'meta': '.meta', 'preamble': '.preamble', 'diff': '...diff'}[kind]
    all_pairs = [list(p) for p in pairs]
    all_pairs.insert(where % (len(all_pairs) + 1),
                     ['length', str(len(content))])
    line = ('#%s: ' % sid + ', '.join('%s=%s' % tuple(p)
                                      for p in all_pairs)).encode('ascii')

    if kind == 'diff':
        data = (MAIN + b'#.change:\n#..file:\n#...meta: length=3\n{}\n' +
                line + b'\n' + content)
        idx = 4
    else:
        data = MAIN + line + b'\n' + content
        idx = 1

    recs, err = sut.read_records(data, budget=False)

    if err is not None:
        return ('rejected-valid-header', '%r -> %r' % (line, err))

    want = {}

    for k, v in all_pairs:
        want.setdefault(k, []).extend(spec.convert_value(v))

    got = recs[idx].get('options')

    if (not isinstance(got, dict) or set(got) != set(want) or
            not all(any(type(got[k]) is type(x) and got[k] == x
                        for x in want[k]) for k in want)):
        return ('wrong-options', '%r -> %r' % (line, got))

    return None


def run_content_header(case, st):
    st.case(case, nontrivial=bool(case['pairs']),
            classes=['kind-' + case['kind']])
    res = judge_content_header(case)

    if res is not None:
        st.violation(res[0], res[1], case)


def content_header_strategy():
    from hypothesis import strategies as hs
    key = hs.one_of(
        hs.builds(lambda a, b: a + b, hs.sampled_from('abzAZ'),
                  hs.text(alphabet='abzAZ09_-', max_size=6)),
        hs.sampled_from(['version', 'Length', 'x-format', 'mimetypes',
                         'types', 'indents']))
    val = hs.one_of(hs.text(alphabet='abzAZ059/._-', min_size=1, max_size=8),
                    hs.sampled_from(['1', '2', '0', '007', '-1', 'json',
                                     'utf-8', '1.0', 'x/y']))

    @hs.composite
    def case(draw):
        pairs = draw(hs.lists(hs.tuples(key, val), max_size=3,
                              unique_by=lambda p: p[0]))
        pairs = [p for p in pairs if p[0] != 'length']
        return {'kind': draw(hs.sampled_from(['meta', 'meta', 'preamble',
                                              'diff'])),
                'pairs': [list(p) for p in pairs],
                'where': draw(hs.integers(0, 3))}

    return case()


def checks():
    return [
        HypCheck(
            'content-headers', content_header_strategy, run_content_header,
            budget={'quick': (8, 150), 'thorough': (16, 5000)},
            rule='metadata / preamble / diff headers carrying only length '
                 'plus 0-3 generated unknown options (incl. "version" with '
                 'integer values): accepted, and the options reported are '
                 'exactly the pairs written (integers converted), nothing '
                 'added or renamed; non-trivial = at least one extra pair'),
        EnumCheck(
            'exhaustive', chunks, run_chunk, run_case=run_case,
            rule='line "#.change:" + every tail over the 16-byte alphabet '
                 '{a B 7 _ - . / SP , = # : + TAB 0xC3 %} up to length L15 and '
                 'over {a 1 _ / SP , = +} up to length L8, over {a 1 CR _ SP '
                 ', = +} up to length L8 - 1 in a file with CRLF header '
                 'lines, and two or three well-formed pairs with every '
                 'string of up to LS bytes from a 19-byte junk alphabet in '
                 'place of a separator (LF and CRLF files), placed after a '
                 'valid main header; accepted iff the full line matches the '
                 'grammar, options as parsed; non-trivial = tail contains '
                 '"="; enumerated, hence distinct',
            bound={'quick': 'L15 = 5, L8 = 7, LS = 3',
                   'thorough': 'L15 = 6, L8 = 8, LS = 4'}),
        HypCheck(
            'grammar-edits', strategy, run_case,
            budget={'quick': (8, 500), 'thorough': (16, 30000)},
            rule='tails derived from the grammar (0-4 pairs, hostile integer '
                 'spellings) with 0-2 byte edits, and variants of the part '
                 'before the colon; non-trivial = line contains "="'),
    ]
