"""C10 -- reader accepts exactly the section orders the hierarchy allows."""

from dxv import sut, spec
from dxv.engine import EnumCheck, HypCheck

ASSUMPTIONS = [
    'the specification hierarchy is the state tree of section-format.rst '
    'with its two errata (DESIGN.md 3.1)',
    'every section carries minimal valid content, so acceptance depends on '
    'order only',
]

LEVELS = ('', '.', '..', '...')
CANDIDATES = [lv + n for lv in LEVELS for n in spec.NAMES]        # 24
OUT_OF_VOCAB = ['.foo', '....meta', '....diff', 'Diffx', '.Change', '..files',
                '.changes', '']


def section_bytes(sid):
    name = sid.lstrip('.')

    if name == 'diffx':
        return b'#' + sid.encode() + b': version=1.0\n'

    if name == 'preamble':
        return b'#' + sid.encode() + b': length=2\na\n'

    if name == 'meta':
        return b'#' + sid.encode() + b': length=3\n{}\n'

    if name == 'diff':
        return b'#' + sid.encode() + b': length=2\na\n'

    return b'#' + sid.encode() + b':\n'


def empty_section_bytes(sid):
    """A content header declaring length=0 with no content at all."""
    return b'#' + sid.encode() + b': length=0\n'


def judge(prefix, cand, variant=None):
    """prefix: tuple of legal ids starting with diffx (possibly empty when the
    candidate stands first); cand: the id tried next.

    variant: None | ('blank', n, crlf) -- n empty lines before the candidate
    header | ('empty-last',) -- the last prefix section (a content section)
    declares length=0 and has no content, which no reader may accept."""
    ns = sut.load()

    if variant and variant[0] == 'empty-last':
        return judge_empty_last(prefix, cand)

    gap = b''

    if variant and variant[0] == 'blank':
        gap = b'\n' * variant[1]

    data = (b''.join(section_bytes(s) for s in prefix) + gap +
            section_bytes(cand))
    if variant and variant[0] == 'lockstep':
        # other readers live in the same process; the order state is each
        # reader's own
        recs, err = sut.read_records_lockstep(data)

        if isinstance(err, sut.CompanionDisturbed):
            return 'readers-share-state', str(err)
    else:
        recs, err = sut.read_records(data, budget=False)

    ids = [r.get('section') for r in recs]

    if prefix:
        legal = cand in spec.TABLE.get(prefix[-1], ())
    else:
        legal = cand == 'diffx'

    want = list(prefix) + ([cand] if legal else [])

    if err is not None and not isinstance(err, ns.DiffXParseError):
        return 'wrong-exception:%s' % type(err).__name__, repr(err)

    if legal:
        if err is not None:
            return 'rejected-legal-order', '%r then %r: %s' % (
                prefix[-3:], cand, err)
    else:
        if err is None:
            return 'accepted-illegal-order', '%r then %r accepted' % (
                prefix[-3:], cand)

    if ids != want:
        return 'wrong-records', 'ids %r, expected %r' % (ids[-4:], want[-4:])

    for r, sid in zip(recs, want):
        if (r.get('level') != spec.level_of(sid) or
                r.get('type') != sid.lstrip('.')):
            return 'wrong-level-or-type', '%r for %s' % (r, sid)

    return None


def judge_empty_last(prefix, cand):
    ns = sut.load()

    if not prefix or spec.kind_of(prefix[-1]) == 'container':
        return None

    data = (b''.join(section_bytes(s) for s in prefix[:-1]) +
            empty_section_bytes(prefix[-1]) + section_bytes(cand))
    recs, err = sut.read_records(data, budget=False)
    ids = [r.get('section') for r in recs]

    if err is not None and not isinstance(err, ns.DiffXParseError):
        return 'wrong-exception:%s' % type(err).__name__, repr(err)

    if spec.illegal_step(ids) is not None:
        return ('accepted-illegal-order',
                'after an empty %s section the reader yielded %r'
                % (prefix[-1], ids[-3:]))

    if err is None or ids != list(prefix[:-1]):
        return ('empty-section-accepted',
                'a %s section with length=0 and no content: records %r, '
                'error %r' % (prefix[-1], ids[-3:], err))

    return None


BLANK_RUNS = (1, 2, 47, 48, 49, 95, 96, 97, 191, 192, 193, 300)


def run_case(case, st):
    prefix = tuple(case['prefix'])
    cand = case['candidate']
    res = judge(prefix, cand, case.get('variant'))
    st.case(case, nontrivial=len(prefix) >= 3,
            classes=['depth-%s' % (len(prefix) if len(prefix) < 20 else '20+'),
                     'legal' if prefix and cand in
                     spec.TABLE.get(prefix[-1], ()) else 'illegal'])

    if res is not None:
        st.violation(res[0], res[1], case)


DEPTH = {'quick': 12, 'thorough': 16}
VARIANT_DEPTH = 7


def legal_prefixes(head, depth):
    """All legal prefixes extending ``head`` up to ``depth`` sections."""
    stack = [tuple(head)]

    while stack:
        p = stack.pop()
        yield p

        if len(p) < depth:
            for s in spec.TABLE[p[-1]]:
                stack.append(p + (s,))


def chunks(tier, seed):
    depth = DEPTH[tier]
    # split on the legal prefixes of depth 5
    heads = [p for p in legal_prefixes(('diffx',), 5) if len(p) == 5]
    out = [('shallow', depth)]

    for h in heads:
        out.append(('deep', h, depth))

    return out


def run_chunk(chunk, st):
    evals = 0
    nontrivial = 0
    sample = None

    if chunk[0] == 'shallow':
        prefixes = [()] + [p for p in legal_prefixes(('diffx',), 4)]
    else:
        prefixes = legal_prefixes(chunk[1], chunk[2])

    for p in prefixes:
        for cand in CANDIDATES + OUT_OF_VOCAB:
            if cand == '' and p:
                # '#:' -- not even a section name
                pass

            variants = [None]

            if len(p) <= VARIANT_DEPTH and p:
                variants += [('blank', n) for n in BLANK_RUNS]
                variants.append(('empty-last',))
                variants.append(('lockstep',))

            for variant in variants:
                res = judge(p, cand, variant)
                evals += 1

                if len(p) >= 3:
                    nontrivial += 1

                    if sample is None and len(p) >= 6:
                        sample = {'prefix': list(p), 'candidate': cand}

                if res is not None:
                    c = {'prefix': list(p), 'candidate': cand}

                    if variant:
                        c['variant'] = list(variant)

                    st.violation(res[0], res[1], c)

    st.bulk(evals, nontrivial, sample=sample)


DEEP_LENGTHS = (500, 990, 1000, 1010, 1500, 3000, 6000)


def deep_chunks(tier, seed):
    return list(DEEP_LENGTHS)


def deep_walk(n, variant):
    """A legal walk of n sections: changes with files, deterministic."""
    walk = ['diffx', '.preamble', '.meta']
    cycle = (['.change', '..preamble', '..meta', '..file', '...meta',
              '...diff', '..file', '...meta'] if variant == 0 else
             ['.change', '..meta'] if variant == 1 else
             ['.change', '..file', '...meta'])

    while len(walk) < n:
        walk.extend(cycle)

    return tuple(walk[:n]) if walk[n - 1] in spec.TABLE else tuple(walk[:n])


def run_deep_chunk(n, st):
    evals = 0

    for variant in (0, 1, 2):
        p = deep_walk(n, variant)

        for cand in ('.change', '..file', '...meta', '...diff', 'diffx',
                     '.preamble', '..preamble', '.foo'):
            res = judge(p, cand)
            evals += 1

            if res is not None:
                st.violation(res[0], '%d sections then %s: %s'
                             % (len(p), cand, res[1][:300]),
                             {'deep': n, 'variant': variant,
                              'candidate': cand})

    st.bulk(evals, evals, sample={'sections': n})


def run_deep_case(case, st):
    p = deep_walk(case['deep'], case['variant'])
    res = judge(p, case['candidate'])
    st.case(case, nontrivial=True)

    if res is not None:
        st.violation(res[0], res[1][:300], case)


def strategy():
    from hypothesis import strategies as hs

    @hs.composite
    def case(draw):
        n = draw(hs.integers(10, 60))
        p = ['diffx']

        for _ in range(n):
            p.append(draw(hs.sampled_from(spec.TABLE[p[-1]])))

        cand = draw(hs.sampled_from(CANDIDATES + OUT_OF_VOCAB))
        case = {'prefix': p, 'candidate': cand}
        v = draw(hs.integers(0, 3))

        if v == 1:
            case['variant'] = ['blank', draw(hs.sampled_from(BLANK_RUNS))]
        elif v == 2:
            case['variant'] = ['empty-last']
        elif v == 3:
            case['variant'] = ['lockstep']

        return case

    return case()


def checks():
    return [
        EnumCheck(
            'exhaustive', chunks, run_chunk, run_case=run_case,
            rule='every legal prefix (by my table) up to depth D, followed '
                 'by each of the 24 level x name ids and 8 out-of-vocabulary '
                 'headers; also every id as the very first section; for '
                 'prefixes up to depth 7 additionally with 1..300 empty '
                 'lines before the candidate (runs around 48/96/192 bytes) '
                 'and with the last content section declared length=0 (which '
                 'must be rejected and must not unlock an illegal successor); '
                 'accepted iff the candidate may follow; non-trivial = '
                 'prefix depth >= 3; enumerated, hence distinct',
            bound={'quick': 'D = 12', 'thorough': 'D = 16'}),
        EnumCheck(
            'very-deep', deep_chunks, run_deep_chunk, run_case=run_deep_case,
            rule='three deterministic legal walks of 500, 990, 1000, 1010, '
                 '1500, 3000 and 6000 sections (around the interpreter\'s '
                 'default recursion limit and far beyond) followed by 8 '
                 'candidates; all non-trivial',
            bound={'quick': '7 lengths x 3 walks x 8 candidates',
                   'thorough': 'same'}),
        HypCheck(
            'random-deep', strategy, run_case,
            budget={'quick': (4, 150), 'thorough': (16, 5000)},
            rule='random legal walks of 10..60 sections followed by one '
                 'candidate; non-trivial = prefix depth >= 3'),
    ]
