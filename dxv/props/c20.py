"""C20 -- syntax highlighter is lossless and tags every section header."""

import re
import signal

from hypothesis import strategies as hs

from dxv import sut, spec, gen
from dxv.engine import HypCheck, EnumCheck

ASSUMPTIONS = [
    '"terminates" is decided by a 30 s alarm per case (a typical case takes '
    'milliseconds); this is the only wall-clock signal in the framework and '
    'a trip is reported as a violation of "terminates" with this caveat',
    'header tokens are the Name.Tag tokens whose value fully matches '
    '#\\.{0,3}[a-z]+: (JSON keys are Name.Tag too but keep their quotes)',
    'benign content = UTF-8 everywhere and no "#." sequence inside any '
    'content',
]

WATCHDOG_S = 30
HEADER_TOKEN_RE = re.compile(r'#\.{0,3}[a-z]+:')

FRAGMENTS = [
    '#diffx: encoding=utf-8, version=1.0\n', '#.change:\n', '#..file:\n',
    '#...meta: format=json, length=12\n', '#...diff: length=3\n',
    '#.preamble: indent=4, length=10\n', '#.meta: length=3\n', '{}\n',
    '{\n    "a": 1\n}\n', '--- a\n+++ b\n', '@@ -1 +1 @@\n', '+x\n', '-y\n',
    '#...diff: length=11\nliteral 12\n', '#...diff:\ndelta 3\nliteral 5\nx',
    '#...diff: length=9\n...\nliteral 1\n',
    '#...diff: length=3\n...', '#...diff:\ndelta 3\n...', '...',
    '#...diff: length=11\ndelta 3\n...\n#..file:\n',
    '#...diff: length=4\n...\n#.change:\n',
    '#.meta: format=console, length=7\n$ ls\nx', '#..meta: format=psql\nx=# select\ny',
    '#...meta: format=pycon, length=9\n>>> 1\n1', '#.meta: format=rbcon\nirb> 1\r\n=> 1',
    '#.meta: format=robotframework\n*** Test ***\r\nx\r\n', '#.meta: format=doscon\nC:\\> dir\nx',
    '#.meta: format=yaml\na: 1', '#.meta: format=text\nplain', '#.meta: format=html\n<a>',
    '#.meta: length=14\n{"C:\\qa": 1}\n', '#...meta: format=json\n{"a\tb": 1, "path": "x"}\n',
    '#..meta:\n{"path": "\\q", "op": 1}', '{"stats": {"x\\y": 1}}\n',
    '@@ -1,2 +1,2\n', '@@@ -1 -1 +1\n', '@@ -\n', '#...diff:\n@@ -1 +1\n+x\n',
    '+x...\n', ' retry later...\n', '...\r\n', 'a...b\n', '....\n',
    '#.change: encoding=UTF-8\n', '#..file: encoding=utf_8\n',
    '#...meta: encoding=Utf8, format=json, length=3\n',
    ' z\n', '...\n', 'delta 12\n', 'literal 12\n', 'literal 5\r\n', 'delta 1\r\n', '#diffx: 1.0\n', '#.change: wip\n',
    '#..file: \n', '#', '#.', '#..', '#...', ':', ' ', '\n', '\r\n', '\r',
    'Index: foo\n', 'diff --git a b\n', '# comment\n', '#...diff:\n# HG\n',
    '#.preamble: length=3\n# H\n', 'length', '=', ', ', '\x00', '﻿',
    ' ', 'é', '中', '#.meta: length=2, x\n', '"k": [1, 2]',
    '#.preamble: indent=4294967296, length=3\n',
    '#..preamble: indent=99999999999999999999, length=6\n    x\n',
    '#.preamble: indent=-1, length=2\nx\n', '#...diff: length=-5\n',
    '#.change: encoding=utf-8\n', '#..file: encoding=utf-16\n',
]


UTF8_SPELLINGS = ['utf-8', 'utf-8', 'UTF-8', 'utf_8', 'utf8', 'U8', 'UTF8',
                  'Utf-8']


class Timeout(BaseException):
    pass


def _alarm(signum, frame):
    raise Timeout()


_shared_lexer = None


def tokens_of(text):
    global _shared_lexer
    Lexer = sut.load_lexer()

    if _shared_lexer is None:
        _shared_lexer = Lexer()

    old = signal.signal(signal.SIGALRM, _alarm)
    signal.alarm(WATCHDOG_S)

    try:
        fresh = list(Lexer().get_tokens_unprocessed(text))
        # a lexer object that has already tokenised other texts must give
        # the same tokens
        reused = list(_shared_lexer.get_tokens_unprocessed(text))

        if reused != fresh:
            return fresh, 'reuse'

        return fresh, None
    except Timeout:
        return None, 'timeout'
    finally:
        signal.alarm(0)
        signal.signal(signal.SIGALRM, old)


def check_lossless(text, toks):
    pos = 0

    for idx, ttype, value in toks:
        if idx != pos:
            return ('tokens-not-contiguous',
                    'token at index %d, expected %d (value %r)'
                    % (idx, pos, value[:40]))

        if text[pos:pos + len(value)] != value:
            return ('token-value-differs-from-input',
                    'at %d: %r vs input %r' % (pos, value[:40],
                                               text[pos:pos + 40]))

        pos += len(value)

    if pos != len(text) or ''.join(v for _, _, v in toks) != text:
        return ('lossy-tokenisation',
                'tokens cover %d of %d characters' % (pos, len(text)))

    return None


def run_any(case, st):
    text = case['text']
    st.case(case, nontrivial='#' in text and len(text) > 8,
            classes=['has-header-like' if re.search(r'#\.{0,3}[a-z]+:', text)
                     else 'no-header', 'len-%s' %
                     ('<50' if len(text) < 50 else '<500' if len(text) < 500
                      else '500+')])
    toks, err = tokens_of(text)

    if err == 'reuse':
        st.violation('tokens-depend-on-lexer-history',
                     'a reused lexer object tokenises differently', case)
        return

    if err:
        st.violation('no-termination',
                     'tokenising %d characters took more than %d s'
                     % (len(text), WATCHDOG_S), case)
        return

    res = check_lossless(text, toks)

    if res is not None:
        st.violation(res[0], res[1], case)


def benign_program(program):
    """Restrict a generated program to UTF-8 and content without '#.'"""
    calls = []

    def clean(s):
        s = s.replace('\ufeff', '').replace('\x00', '')

        while '#.' in s:
            s = s.replace('#.', '# .')

        return s

    for op, kw in program['calls']:
        kw = dict(kw)

        if 'encoding' in kw:
            # still UTF-8 everywhere, under any of its spellings
            kw['encoding'] = UTF8_SPELLINGS[
                (len(calls) + len(repr(sorted(kw)))) % len(UTF8_SPELLINGS)]

        if op == 'preamble':
            kw['text'] = clean(kw['text']).replace('\x00', '')

            if not kw['text']:
                kw['text'] = 'x'
        elif op == 'meta':
            kw['metadata'] = _clean_json(kw['metadata'], clean)
        elif op == 'diff':
            try:
                t = kw['content'].decode('utf-8')
            except UnicodeDecodeError:
                t = 'binary payload\n'

            t = clean(t).replace('\x00', '')

            # Git binary patch vocabulary where the diff state looks for
            # it: at the very start of the content
            if len(t) % 5 == 0:
                t = 'literal %d\n' % len(t) + t
            elif len(t) % 5 == 1:
                t = 'delta %d\n...\nliteral 7\n' % len(t) + t

            if len(t) % 11 == 2:
                # nothing but marker lines, and another section after it
                t = ['delta 5\n...\n', '...\n', 'delta 1\n',
                     'delta 2\ndelta 3\n'][len(t) % 4]
            elif len(t) % 7 == 3:
                # a last line that ends in an ellipsis
                t = t.rstrip('\r\n') + ' and later...\n'

            kw['content'] = t.encode('utf-8') or b'x\n'

        calls.append([op, kw])

    return {'encoding': 'utf-8', 'calls': calls}


def _clean_json(v, clean):
    if isinstance(v, str):
        return clean(v)

    if isinstance(v, list):
        return [_clean_json(x, clean) for x in v]

    if isinstance(v, dict):
        return {clean(k): _clean_json(x, clean) for k, x in v.items()} or \
            {'k': 1}

    return v


def run_writer_file(case, st):
    from pygments.token import Error, Name
    program = benign_program(case['program'])

    try:
        data = spec.ref_serialize(program)
    except spec.Unencodable:
        st.exclude('unencodable')
        return

    # the file must be the writer's: produced by the real writer
    from dxv import roundtrip

    try:
        data = roundtrip.write_program(program)
    except Exception as e:
        st.violation('writer-rejected-valid-program', repr(e), case)
        return

    text = data.decode('utf-8')
    nsec = len(program['calls']) + 1
    st.case(case, nontrivial=nsec >= 4,
            classes=['sections-%d' % min(nsec, 20)])
    # content must stay benign after the writer added indentation/newlines
    body = [ln for ln in text.split('\n') if not ln.startswith('#')]

    if any('#.' in ln for ln in body):
        st.exclude('content-contains-header-marker')
        return

    toks, err = tokens_of(text)

    if err == 'reuse':
        st.violation('tokens-depend-on-lexer-history',
                     'a reused lexer object tokenises differently', case)
        return

    if err:
        st.violation('no-termination', 'writer file of %d characters'
                     % len(text), case)
        return

    res = check_lossless(text, toks)

    if res is not None:
        st.violation(res[0], res[1], case)
        return

    errors = [(i, v) for i, t, v in toks if t in Error]

    if errors:
        st.violation('error-token',
                     'Error token %r at %d' % (errors[0][1][:30],
                                               errors[0][0]), case)
        return

    tags = [v for _, t, v in toks
            if t in Name.Tag and HEADER_TOKEN_RE.fullmatch(v)]
    want = ['#diffx:'] + ['#%s:' % r['section']
                          for r in spec.expected_records(program)[1:]]

    if tags != want:
        st.violation('header-tokens-differ',
                     'header tokens %r, section headers %r'
                     % (tags[:12], want[:12]), case)


@hs.composite
def any_text(draw):
    toks = draw(hs.lists(hs.one_of(hs.sampled_from(FRAGMENTS),
                                   hs.sampled_from(FRAGMENTS),
                                   hs.text(max_size=12)),
                         max_size=draw(hs.sampled_from([5, 20, 80]))))
    return {'text': ''.join(toks)}


@hs.composite
def writer_files(draw):
    return {'program': draw(gen.programs(max_changes=2, max_files=2,
                                         pool=('utf-8',)))}


def many_chunks(tier, seed):
    return [(1, 400), (3, 400), (400, 1), (1, 1100), (1100, 1), (40, 30)]


def run_many_chunk(chunk, st):
    """Writer files with hundreds to a thousand containers."""
    nchanges, nfiles = chunk
    calls = [['preamble', {'text': 'many sections'}]]

    for c in range(nchanges):
        calls.append(['change', {}])
        calls.append(['meta', {'metadata': {'id': c}}])

        for f in range(nfiles):
            calls.append(['file', {}])
            calls.append(['meta', {'metadata': {'path': 'f%d' % f}}])

            if (c + f) % 50 == 0:
                calls.append(['diff', {'content': b'@@ -1 +1 @@\n-a\n+b\n'}])

    case = {'program': {'encoding': 'utf-8', 'calls': calls}}
    stats_before = len(st.buckets)
    run_writer_file(case, st)

    for b in list(st.buckets.values())[stats_before:]:
        b['case'] = {'many': [nchanges, nfiles]}


def run_many_case(case, st):
    if 'many' in case:
        return run_many_chunk(tuple(case['many']), st)

    return run_writer_file(case, st)


def checks():
    return [
        HypCheck(
            'any-text', any_text, run_any,
            budget={'quick': (8, 300), 'thorough': (16, 15000)},
            rule='strings assembled from DiffX fragments (valid and '
                 'malformed headers, content starting with "#", CR/LF '
                 'mixes, no trailing newline) and arbitrary Unicode, up to '
                 '~2 KB: concatenated token values == input and indices are '
                 'contiguous; non-trivial = contains "#" and is longer than '
                 '8 characters'),
        HypCheck(
            'writer-files', writer_files, run_writer_file,
            budget={'quick': (16, 40), 'thorough': (16, 3000)},
            rule='UTF-8 files produced by the real writer from generated '
                 'programs whose content is made benign (no "#." sequence): '
                 'lossless, no Error token, and the header tokens equal the '
                 'file\'s section headers in order; non-trivial = >= 4 '
                 'sections'),
        EnumCheck(
            'many-sections', many_chunks, run_many_chunk,
            run_case=run_many_case, exhaustive=False,
            rule='writer files with 400 to 1 100 changes or files (one '
                 'change with 1 100 files, 1 100 changes with one file, '
                 '40 x 30, ...): lossless, no Error token, header tokens == '
                 'section headers; all non-trivial',
            bound={'quick': '6 files of up to 2 200 sections',
                   'thorough': 'same'}),
    ]
