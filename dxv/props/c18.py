"""C18 -- object-model instances are isolated and observers do not mutate
(stateful, model-based)."""

import copy
import io

from hypothesis import strategies as hs
from hypothesis.stateful import RuleBasedStateMachine, initialize, rule

from dxv import sut, spec, trees, foreign, gen
from dxv.engine import MachineCheck, EnumCheck, to_jsonable

ASSUMPTIONS = [
    'the harness deep-copies every mutable argument before handing it to '
    'the library, so any sharing observed was created by the library',
    'operations may raise library errors (e.g. serialising an incomplete '
    'tree); only isolation, observer purity and repeatability are judged',
]

MAX_LIVE = 4


class World(object):
    """The live trees plus the shared reader / writer objects."""

    def __init__(self):
        ns = sut.load()
        self.ns = ns
        self.live = []
        self.snaps = []
        self.shared_reader = ns.DiffXDOMReader(ns.DiffX)
        self.shared_writer = ns.DiffXDOMWriter()
        self.mutations_after_parse = 0
        self.parsed = 0

    # -- helpers -----------------------------------------------------------
    def _tree(self, i):
        if not self.live:
            return None, None

        i = i % len(self.live)
        return i, self.live[i]

    def _section(self, tree, path):
        """path = [change index or -1, file index or -1]"""
        c, f = path

        if c < 0 or not tree.changes:
            return tree

        change = tree.changes[c % len(tree.changes)]

        if f < 0 or not change.files:
            return change

        return change.files[f % len(change.files)]

    def _add(self, tree):
        if len(self.live) >= MAX_LIVE:
            self.live.pop(0)
            self.snaps.pop(0)

        self.live.append(tree)
        self.snaps.append(trees.snapshot(tree))

    def _serialise(self, tree, shared):
        if shared:
            stream = io.BytesIO()
            self.shared_writer.write_stream(tree, stream)
            return stream.getvalue()

        return tree.to_bytes()

    # -- the operations ----------------------------------------------------
    def apply(self, op):
        """Execute one operation; return [(kind, detail), ...]."""
        problems = []
        name = op['op']
        touched = None          # index of the tree allowed to change
        observed = None         # index of a tree that must NOT change

        try:
            if name == 'new':
                self._add(trees.build(op['tree']))
                touched = len(self.live) - 1
            elif name == 'new_default':
                self._add(self.ns.DiffX())
                touched = len(self.live) - 1
                self.parsed += 1
            elif name == 'add_change':
                i, t = self._tree(op['t'])

                if t is not None:
                    touched = i
                    t.add_change(**copy.deepcopy(op['attrs']))
            elif name == 'add_file':
                i, t = self._tree(op['t'])

                if t is not None and t.changes:
                    touched = i
                    t.changes[op['c'] % len(t.changes)].add_file(
                        **copy.deepcopy(op['attrs']))
            elif name == 'assign':
                i, t = self._tree(op['t'])

                if t is not None:
                    touched = i
                    sec = self._section(t, op['path'])

                    if hasattr(sec, op['name']):
                        # an attribute belongs to one section (the
                        # container's own options, or its preamble / meta /
                        # diff section): the others stay as they are
                        which = op['name'].split('_')[0]

                        if which not in ('preamble', 'meta', 'diff'):
                            which = None

                        parts = {}

                        for part in ('preamble', 'meta', 'diff'):
                            obj = getattr(sec, part + '_section', None)

                            if obj is not None and part != which:
                                parts[part] = (obj, trees.snapshot(obj))

                        own = copy.deepcopy(dict(sec.options))

                        try:
                            setattr(sec, op['name'],
                                    copy.deepcopy(op['value']))
                        finally:
                            for part, (obj, snap) in parts.items():
                                now = trees.snapshot(obj)

                                if not trees.snap_eq(now, snap):
                                    problems.append((
                                        'assignment-changed-another-section',
                                        '%s = %r changed the %s section: %s'
                                        % (op['name'], op['value'], part,
                                           trees.snap_diff(snap, now))))

                            if which is not None and \
                                    not trees.snap_eq(dict(sec.options), own):
                                problems.append((
                                    'assignment-changed-another-section',
                                    '%s = %r changed the container\'s own '
                                    'options' % (op['name'], op['value'])))

                        self._count_mutation()
            elif name == 'list_op':
                # the public changes / files lists edited in place
                i, t = self._tree(op['t'])

                if t is not None:
                    touched = i
                    lst = t.changes

                    if op['level'] == 'files' and t.changes:
                        lst = t.changes[op['c'] % len(t.changes)].files

                    if op['what'] == 'reverse':
                        lst.reverse()
                    elif op['what'] == 'pop' and lst:
                        lst.pop(op['k'] % len(lst))
                    elif op['what'] == 'swap' and len(lst) >= 2:
                        k = op['k'] % (len(lst) - 1)
                        lst[k], lst[k + 1] = lst[k + 1], lst[k]
                    elif op['what'] == 'rotate' and lst:
                        lst.append(lst.pop(0))

                    self._count_mutation()
            elif name == 'self_assign':
                i, t = self._tree(op['t'])

                if t is not None:
                    observed = i
                    sec = self._section(t, op['path'])

                    if hasattr(sec, op['name']):
                        v = getattr(sec, op['name'])

                        if v is not None:
                            setattr(sec, op['name'], v)
            elif name == 'mutate_meta':
                i, t = self._tree(op['t'])

                if t is not None:
                    touched = i
                    sec = self._section(t, op['path'])
                    sec.meta[op['key']] = copy.deepcopy(op['value'])
                    self._count_mutation()
            elif name == 'mutate_options':
                i, t = self._tree(op['t'])

                if t is not None:
                    touched = i
                    sec = self._section(t, op['path'])
                    which = op['which']
                    target = sec

                    if which != 'self':
                        target = getattr(sec, which + '_section', sec)

                    if op['value'] == '$del':
                        target.options.pop(op['key'], None)
                    else:
                        target.options[op['key']] = op['value']

                    self._count_mutation()
            elif name == 'to_bytes':
                i, t = self._tree(op['t'])

                if t is not None:
                    observed = i
                    outcomes = []

                    # the shared writer goes first, so that a failing
                    # serialisation also passes through it
                    for shared in (True, False, True, False):
                        try:
                            outcomes.append(self._serialise(t, shared))
                        except Exception as e:
                            outcomes.append(type(e).__name__)

                    c, a, d, b = outcomes

                    if not isinstance(a, bytes):
                        if not (a == b == c == d):
                            problems.append((
                                'serialising-twice-differs',
                                'a failing serialisation gave %r' %
                                (outcomes,)))

                        raise ValueError('not serialisable')

                    try:
                        fresh = trees.rebuild(trees.snapshot(t)).to_bytes()
                    except Exception:
                        fresh = None

                    if fresh is not None and fresh != a:
                        problems.append((
                            'serialisation-depends-on-history',
                            'a fresh tree with the same options and '
                            'contents serialises differently: %r vs %r'
                            % (_first_diff(a, fresh)))
                        )

                    if a != b:
                        problems.append(('serialising-twice-differs',
                                         'to_bytes() gave different bytes '
                                         'for the same tree'))
                    elif c != a or d != a:
                        problems.append(('shared-writer-differs',
                                         'a reused DiffXDOMWriter gave '
                                         'different bytes than to_bytes(): '
                                         '%r vs %r' % (c[:80], a[:80])))
            elif name == 'parse':
                i, t = self._tree(op['t'])

                if t is not None:
                    observed = i
                    data = t.to_bytes()

                    if op.get('shared'):
                        new = self.shared_reader.parse(io.BytesIO(data))
                    else:
                        new = self.ns.DiffX.from_bytes(data)

                    self._add(new)
                    self.parsed += 1
                    # _add may have evicted index 0
                    observed = None
            elif name == 'parse_foreign':
                data = foreign.render(op['doc']).data

                if op.get('shared'):
                    new = self.shared_reader.parse(io.BytesIO(data))
                else:
                    new = self.ns.DiffX.from_bytes(data)

                self._add(new)
                touched = len(self.live) - 1
                self.parsed += 1
            elif name == 'parse_garbage':
                # a failing parse through the shared reader must leave no
                # state behind that a later parse could pick up
                try:
                    t = self.shared_reader.parse(io.BytesIO(op['data']))
                    self._add(t)
                    touched = len(self.live) - 1
                    t2 = self.ns.DiffX.from_bytes(op['data'])
                    self._add(t2)
                except Exception:
                    pass
            elif name == 'stats':
                i, t = self._tree(op['t'])

                if t is not None:
                    touched = i
                    t.generate_stats()
            elif name == 'eq':
                i, t = self._tree(op['t'])
                j, u = self._tree(op['u'])

                if t is not None:
                    observed = i
                    r1 = (t == u)
                    r2 = (t != u)
                    before_u = self.snaps[j]

                    want = (trees.snapshot(t) == trees.snapshot(u))

                    if r1 != want:
                        problems.append((
                            'equality-depends-on-history',
                            '== gave %r for trees whose options and '
                            'contents are %s' % (r1, 'equal' if want
                                                 else 'different')))

                    if r1 == r2:
                        problems.append(('eq-ne-inconsistent',
                                         '== gave %r and != gave %r'
                                         % (r1, r2)))

                    if not trees.snap_eq(trees.snapshot(u), before_u):
                        problems.append((
                            'observer-mutated-tree',
                            'comparison changed its right operand: %s'
                            % trees.snap_diff(before_u, trees.snapshot(u))))
            elif name == 'repr':
                i, t = self._tree(op['t'])

                if t is not None:
                    observed = i
                    repr(t)

                    def walk(sec):
                        repr(sec)
                        str(sec)

                        for sub in getattr(sec, 'subsections', ()):
                            walk(sub)

                    walk(t)
        except Exception:
            # library errors are not what C18 judges
            pass

        # -- invariants ------------------------------------------------------
        for k, (t, snap) in enumerate(zip(self.live, self.snaps)):
            now = trees.snapshot(t)

            if k == touched:
                self.snaps[k] = now
                continue

            if not trees.snap_eq(now, snap):
                if k == observed:
                    problems.append((
                        'observer-mutated-tree',
                        '%s changed its operand: %s'
                        % (name, trees.snap_diff(snap, now))))
                else:
                    problems.append((
                        'other-tree-changed',
                        '%s on another tree changed tree %d: %s'
                        % (name, k, trees.snap_diff(snap, now))))

                self.snaps[k] = now

        shared = self._shared_mutables()

        if shared:
            problems.append(('shared-mutable-object', shared))

        return problems

    def _count_mutation(self):
        if self.parsed:
            self.mutations_after_parse += 1

    def _shared_mutables(self):
        """Identity walk: is a dict/list reachable from two sections?"""
        seen = {}

        def walk(obj, owner):
            if isinstance(obj, (dict, list, set, bytearray)):
                prev = seen.get(id(obj))

                if prev is not None and prev[0] != owner:
                    return ('%s object %r is reachable from %s and %s'
                            % (type(obj).__name__, _short(obj), prev[0],
                               owner))

                seen[id(obj)] = (owner, obj)

                if isinstance(obj, dict):
                    for v in obj.values():
                        r = walk(v, owner)

                        if r:
                            return r
                elif isinstance(obj, (list, set)):
                    for v in obj:
                        r = walk(v, owner)

                        if r:
                            return r

            return None

        def sections(tree, prefix):
            yield prefix, tree

            for name in ('preamble_section', 'meta_section', 'diff_section'):
                s = getattr(tree, name, None)

                if s is not None:
                    yield '%s.%s' % (prefix, name), s

            for attr in ('changes', 'files'):
                lst = getattr(tree, attr, None)

                if isinstance(lst, list):
                    for n, sub in enumerate(lst):
                        for x in sections(sub, '%s.%s[%d]' % (prefix, attr,
                                                             n)):
                            yield x

        for k, t in enumerate(self.live):
            for owner, sec in sections(t, 'tree%d' % k):
                r = walk(sec.options, owner + '.options')

                if r:
                    return r

                if hasattr(sec, '_content') or hasattr(type(sec), 'content'):
                    try:
                        r = walk(sec.content, owner + '.content')
                    except Exception:
                        r = None

                    if r:
                        return r

                for attr in ('changes', 'files'):
                    lst = getattr(sec, attr, None)

                    if isinstance(lst, list):
                        prev = seen.get(id(lst))

                        if prev is not None and prev[0] != owner + '.' + attr:
                            return ('the %s list of %s is shared with %s'
                                    % (attr, owner, prev[0]))

                        seen[id(lst)] = (owner + '.' + attr, lst)

        return None


def _short(v):
    s = repr(v)
    return s if len(s) < 100 else s[:100] + '...'


def _first_diff(a, b):
    i = next((k for k in range(min(len(a), len(b))) if a[k] != b[k]),
             min(len(a), len(b)))
    return a[max(0, i - 30):i + 40], b[max(0, i - 30):i + 40]


# ---------------------------------------------------------------------------
# replay / machine
# ---------------------------------------------------------------------------

def run_case(case, st):
    w = World()

    for op in case['steps']:
        for kind, detail in w.apply(op):
            st.violation(kind, detail, case)

    st.case(case, nontrivial=len(w.live) >= 2 and w.mutations_after_parse,
            classes=['steps-%d' % min(len(case['steps']), 50)])


_idx = hs.integers(0, 7)
_path = hs.tuples(hs.integers(-1, 3), hs.integers(-1, 3)).map(list)
_small_tree = trees.trees(max_changes=2, max_files=2)

ASSIGNMENTS = [
    ('encoding', 'latin-1'), ('encoding', 'utf-16'),
    ('preamble', 'changed\ntext'), ('preamble', ''),
    ('preamble_encoding', 'utf-8'), ('preamble_indent', 2),
    ('preamble_line_endings', 'dos'), ('preamble_mimetype', 'text/markdown'),
    ('meta', {'new': [1, {'deep': True}]}), ('meta', {}),
    ('meta', None), ('preamble', None), ('diff', None), ('encoding', None),
    ('meta', {'stats': {'insertions': 1, 'custom': 2}, 'path': 'p'}),
    ('meta_encoding', 'utf-32'), ('meta_format', 'json'),
    ('diff', b'--- a\n+++ b\n@@ -1 +1 @@\n-x\n+y\n'), ('diff', b''),
    ('diff_encoding', 'utf-8'), ('diff_line_endings', 'unix'),
    ('diff_type', 'binary'),
]


def machine(st, target):
    class DiffXWorld(RuleBasedStateMachine):
        def __init__(self):
            RuleBasedStateMachine.__init__(self)
            self.world = World()
            self.log = []

        def step(self, op):
            self.log.append(op)

            for kind, detail in self.world.apply(op):
                case = {'steps': list(self.log)}
                st.violation(kind, detail, case)

                if target == kind:
                    st.notes['last_target_hit'] = {
                        'case': to_jsonable(case), 'detail': detail}
                    raise AssertionError(kind)

        @initialize(tree=_small_tree)
        def start(self, tree):
            self.step({'op': 'new', 'tree': tree})
            self.step({'op': 'new_default'})

        @rule(tree=_small_tree)
        def new(self, tree):
            self.step({'op': 'new', 'tree': tree})

        @rule()
        def new_default(self):
            self.step({'op': 'new_default'})

        @rule(t=_idx, attrs=hs.fixed_dictionaries({}, optional={
            'encoding': hs.sampled_from(['latin-1', 'utf-16']),
            'preamble': hs.sampled_from(['p', 'two\nlines']),
            'meta': hs.just({'k': [1, 2]})}))
        def add_change(self, t, attrs):
            self.step({'op': 'add_change', 't': t, 'attrs': attrs})

        @rule(t=_idx, c=_idx, attrs=hs.fixed_dictionaries({}, optional={
            'meta': hs.just({'path': 'f', 'l': [1]}),
            'diff': hs.just(b'@@ -1 +1 @@\n-a\n+b\n'),
            'encoding': hs.just('cp037')}))
        def add_file(self, t, c, attrs):
            self.step({'op': 'add_file', 't': t, 'c': c, 'attrs': attrs})

        @rule(t=_idx, path=_path, a=hs.sampled_from(ASSIGNMENTS))
        def assign(self, t, path, a):
            self.step({'op': 'assign', 't': t, 'path': path, 'name': a[0],
                       'value': a[1]})

        @rule(t=_idx, path=_path, key=hs.sampled_from(['k', 'stats', 'new']),
              value=hs.sampled_from([1, 'v', [1, 2], {'a': {}},
                                     {'n': {1: 'int key', 2: {3: 'deep'}}},
                                     [{'z': 1, 'a': 2}]]))
        def mutate_meta(self, t, path, key, value):
            self.step({'op': 'mutate_meta', 't': t, 'path': path, 'key': key,
                       'value': value})

        @rule(t=_idx, path=_path,
              which=hs.sampled_from(['self', 'meta', 'preamble', 'diff']),
              key=hs.sampled_from(['encoding', 'format', 'indent',
                                   'line_endings', 'type', 'version']),
              value=hs.sampled_from(['$del', '$del', 'utf-8', 'json', 'unix',
                                     None, 4, 0]))
        def mutate_options(self, t, path, which, key, value):
            self.step({'op': 'mutate_options', 't': t, 'path': path,
                       'which': which, 'key': key, 'value': value})

        @rule(t=_idx, level=hs.sampled_from(['changes', 'files']), c=_idx,
              what=hs.sampled_from(['reverse', 'pop', 'swap', 'rotate']),
              k=_idx)
        def list_op(self, t, level, c, what, k):
            self.step({'op': 'list_op', 't': t, 'level': level, 'c': c,
                       'what': what, 'k': k})

        @rule(t=_idx, path=_path,
              name=hs.sampled_from(['meta', 'preamble', 'diff', 'encoding',
                                    'meta_format', 'preamble_indent']))
        def self_assign(self, t, path, name):
            self.step({'op': 'self_assign', 't': t, 'path': path,
                       'name': name})

        @rule(t=_idx)
        def to_bytes(self, t):
            self.step({'op': 'to_bytes', 't': t})

        @rule(t=_idx, shared=hs.booleans())
        def parse(self, t, shared):
            self.step({'op': 'parse', 't': t, 'shared': shared})

        @rule(doc=foreign.docs(max_changes=2, max_files=2, meta_min_size=1),
              shared=hs.booleans())
        def parse_foreign(self, doc, shared):
            self.step({'op': 'parse_foreign', 'doc': doc, 'shared': shared})

        @rule(data=hs.sampled_from([
            b'#diffx: version=1.0\n#.change:\n#..file:\n#...meta: length=5\n{"a"',
            b'#diffx: encoding=utf-16, version=1.0\n#.preamble: length=3\nabc',
            b'#diffx: version=9\n', b'garbage', b'',
            b'#diffx: version=1.0\n#.meta: length=5\nnull\n#.change:\n'
            b'#..file:\n#...meta: length=5\nnull\n',
            b'#diffx: version=1.0\n#.change: encoding=latin-1\n#..file:\n'
            b'#...meta: length=3\n[]\n']))
        def parse_garbage(self, data):
            self.step({'op': 'parse_garbage', 'data': data})

        @rule(t=_idx)
        def stats(self, t):
            self.step({'op': 'stats', 't': t})

        @rule(t=_idx, u=_idx)
        def eq(self, t, u):
            self.step({'op': 'eq', 't': t, 'u': u})

        @rule(t=_idx)
        def do_repr(self, t):
            self.step({'op': 'repr', 't': t})

        def teardown(self):
            w = self.world
            ops = sorted(set(o['op'] for o in self.log))
            st.case({'steps': self.log},
                    nontrivial=(len(w.live) >= 2 and
                                w.mutations_after_parse > 0),
                    classes=['live-%d' % len(w.live),
                             'steps-%d' % (len(self.log) // 10 * 10)] +
                    ['op:' + o for o in ops])

    return DiffXWorld


# -- scripted histories -------------------------------------------------

NO_ENCODING = (b'#diffx: version=1.0\n#.change:\n#..file:\n'
               b'#...meta: format=json, length=9\n{"a": 1}\n')
TWINS = (b'#diffx: encoding=utf-8, version=1.0\n#.change:\n'
         b'#..meta: format=json, length=9\n{"a": 1}\n#..file:\n'
         b'#...meta: format=json, length=9\n{"a": 1}\n#..file:\n'
         b'#...meta: format=json, length=9\n{"a": 1}\n')
OBSERVE = [{'op': 'to_bytes', 't': 0}, {'op': 'repr', 't': 0},
           {'op': 'eq', 't': 0, 'u': 0}, {'op': 'to_bytes', 't': 0},
           {'op': 'stats', 't': 0}, {'op': 'to_bytes', 't': 0},
           {'op': 'repr', 't': 0}]


def scenarios():
    out = []

    # a tree parsed from a file that declares no encoding, edited through
    # the API at every level, then serialised and looked at
    for path in ([-1, -1], [0, -1], [0, 0]):
        for name, value in ASSIGNMENTS:
            out.append([{'op': 'parse_garbage', 'data': NO_ENCODING},
                        {'op': 'assign', 't': 0, 'path': path, 'name': name,
                         'value': value}] + OBSERVE)

    # sections whose content is byte-identical on disk, edited in place
    for path in ([0, -1], [0, 0], [0, 1]):
        for key, value in (('a', 2), ('new', [1]), ('a', {'deep': 1})):
            out.append([{'op': 'parse_garbage', 'data': TWINS},
                        {'op': 'mutate_meta', 't': 0, 'path': path,
                         'key': key, 'value': value}] + OBSERVE)

    # files that carry statistics but nothing to count (binary, empty or no
    # diff), analysed repeatedly, in two trees
    idle = {'main': {}, 'via_constructor': True, 'changes': [
        {'attrs': {}, 'files': [
            {'meta': {'path': 'a', 'stats': {'insertions': 1, 'x': 1}},
             'diff': b'\x00\x01\n', 'diff_type': 'binary'},
            {'meta': {'path': 'b', 'stats': {'insertions': 2}}},
            {'meta': {'path': 'c', 'stats': {'deletions': 3}}, 'diff': b''},
            {'meta': {'path': 'd'},
             'diff': b'@@ -1 +1 @@\n-a\n+b\n'}]}]}
    out.append([{'op': 'new', 'tree': idle}, {'op': 'stats', 't': 0},
                {'op': 'stats', 't': 0}, {'op': 'new', 'tree': idle},
                {'op': 'stats', 't': 1}, {'op': 'stats', 't': 0},
                {'op': 'mutate_meta', 't': 1, 'path': [0, 1],
                 'key': 'stats', 'value': {'a': {}}},
                {'op': 'assign', 't': 1, 'path': [0, 0], 'name': 'diff',
                 'value': b'@@ -1 +1 @@\n-a\n+b\n'},
                {'op': 'assign', 't': 1, 'path': [0, 0], 'name': 'diff_type',
                 'value': 'text'},
                {'op': 'stats', 't': 1}, {'op': 'stats', 't': 0}] + OBSERVE)

    # every assignment on a file that carries statistics and a diff
    for name, value in ASSIGNMENTS:
        out.append([{'op': 'new', 'tree': {
            'main': {}, 'via_constructor': True,
            'changes': [{'attrs': {'meta': {'stats': {'files': 1}}},
                         'files': [{'meta': {'path': 'p', 'stats': {
                             'insertions': 1, 'deletions': 1,
                             'lines changed': 2, 'x': 1}},
                             'diff': b'@@ -1 +1 @@\n-a\n+b\n'}]}]}},
            {'op': 'assign', 't': 0, 'path': [0, 0], 'name': name,
             'value': value},
            {'op': 'assign', 't': 0, 'path': [0, -1], 'name': name,
             'value': value}] + OBSERVE[:3])

    # root options taken away one by one (or all), then serialised, then
    # another default tree made and serialised
    for keys in (['encoding', 'version'], ['version', 'encoding'],
                 ['encoding'], ['version']):
        out.append([{'op': 'new_default'}] +
                   [{'op': 'mutate_options', 't': 0, 'path': [-1, -1],
                     'which': 'self', 'key': k, 'value': '$del'}
                    for k in keys] + OBSERVE +
                   [{'op': 'new_default'}, {'op': 'to_bytes', 't': 1},
                    {'op': 'eq', 't': 1, 'u': 0}, {'op': 'to_bytes', 't': 0},
                    {'op': 'new_default'}, {'op': 'to_bytes', 't': 2}])

    # built, serialised, extended, serialised again
    for tree in ({'main': {}, 'changes': [], 'via_constructor': True},
                 {'main': {'meta': {'k': 1}},
                  'changes': [{'attrs': {}, 'files': [{'meta': {'p': 1}}]}],
                  'via_constructor': False}):
        out.append([{'op': 'new', 'tree': tree}] + OBSERVE +
                   [{'op': 'add_change', 't': 0,
                     'attrs': {'meta': {'c': 1}}},
                    {'op': 'to_bytes', 't': 0},
                    {'op': 'add_file', 't': 0, 'c': 0,
                     'attrs': {'meta': {'path': 'late'}}},
                    {'op': 'to_bytes', 't': 0},
                    {'op': 'add_file', 't': 0, 'c': 0,
                     'attrs': {'meta': {'path': 'later'},
                               'diff': b'@@ -1 +1 @@\n-a\n+b\n'}}] +
                   OBSERVE + [{'op': 'parse', 't': 0, 'shared': True},
                              {'op': 'parse', 't': 0, 'shared': False}] +
                   OBSERVE)

    return out


def scenario_chunks(tier, seed):
    n = len(scenarios())
    return [list(range(i, n, 8)) for i in range(8)]


def run_scenario_chunk(indices, st):
    all_ = scenarios()

    for i in indices:
        run_case({'steps': all_[i]}, st)


def checks():
    return [
        MachineCheck(
            'world', machine, run_case,
            budget={'quick': (16, 40), 'thorough': (16, 1200)},
            steps=40,
            rule='rule-based state machine over up to 4 live trees, one '
                 'shared DiffXDOMReader and one shared DiffXDOMWriter: '
                 'construct (attributes / defaults), add_change, add_file, '
                 'assign typed attributes (also their own value), mutate '
                 'meta, options and the changes/files lists in place, '
                 'to_bytes (direct and via the shared writer, twice '
                 'each), parse own bytes and foreign files (from_bytes and '
                 'the shared reader), generate_stats, ==/!=, repr; after '
                 'every step: all trees not operated on are unchanged, '
                 'observers leave operands unchanged, no dict/list is '
                 'reachable from two sections; non-trivial = >= 2 live '
                 'trees and >= 1 mutation after a parse or default '
                 'construction'),
        EnumCheck(
            'scenarios', scenario_chunks, run_scenario_chunk,
            run_case=run_case, exhaustive=False,
            rule='scripted histories through the same world model: a tree '
                 'parsed from a file that declares no encoding gets each of '
                 'the 23 attribute assignments at main / change / file '
                 'level and is then serialised, printed, compared and '
                 'analysed repeatedly; sections whose metadata is '
                 'byte-identical on disk are edited in place; trees are '
                 'serialised, extended with add_change / add_file, and '
                 'serialised and re-parsed again; same invariants after '
                 'every step',
            bound={'quick': 'all scripted histories', 'thorough': 'same'}),
    ]
