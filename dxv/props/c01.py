"""C01 -- streaming write -> read round trip preserves structure, content
and options."""

from dxv import sut, spec, gen, roundtrip
from dxv.engine import HypCheck, EnumCheck

ASSUMPTIONS = [
    'expected records are derived from the calls (constructive oracle), not '
    'from the writer output',
    'for a diff with undeclared line endings in a multi-byte encoding, when '
    'byte-level and code-unit-level first-line detection disagree the kind '
    'written in the header is accepted as given (counted as '
    'ambiguous-detection)',
    'BOM-emitting codecs use the platform byte order, as CPython does',
]


def run_case(program, st):
    ns = sut.load()
    labels, nontrivial = gen.program_features(program)
    st.case(program, nontrivial=nontrivial,
            classes=labels + ['calls-%s' % min(len(program['calls']), 20)])

    try:
        data = roundtrip.write_program(program)
    except Exception as e:
        st.violation('writer-rejected-valid-program:%s' % type(e).__name__,
                     '%s: %s' % (type(e).__name__, e), program)
        return

    recs, err = sut.read_records(data)

    if err is not None:
        where = (sut.innermost_pydiffx_frame(err)
                 if isinstance(err, Exception) else ('?', '?'))
        st.violation('reader-raised:%s' % type(err).__name__,
                     '%r at %s (after %d records)' % (err, where, len(recs)),
                     program)
        return

    res = roundtrip.compare_records(program, recs, st)

    if res is not None:
        st.violation(res[0], res[1], program)


def boundary_chunks(tier, seed):
    return list(roundtrip.BOUNDARY_BLOCKS)


def run_boundary_chunk(block, st):
    from dxv.engine import Stats
    progs = roundtrip.boundary_programs(block)

    for prog in progs:
        sub = Stats()
        run_case(prog, sub)

        for kind, b in sub.buckets.items():
            st.violation(kind, b['detail'], prog)

    st.bulk(len(progs), len(progs),
            sample={'block': block, 'programs': len(progs)})


def checks():
    return [
        EnumCheck(
            'size-boundaries', boundary_chunks, run_boundary_chunk,
            run_case=run_case,
            rule='deterministic programs whose first content line ends at '
                 'every offset -2..+1 around 96 B, 1 KiB, 4 KiB, 8 KiB and '
                 '64 KiB (unix/dos, declared or detected, indent 0/4, next '
                 'line starting with a space or not, utf-8 and utf-16-le; '
                 'preamble, inheriting preamble, metadata, diff); all '
                 'non-trivial',
            bound={'quick': '5 blocks x 4 offsets x 64 variants',
                   'thorough': 'same'}),
        HypCheck(
            'programs', lambda: gen.programs(), run_case,
            budget={'quick': (16, 220), 'thorough': (16, 12000)},
            rule='well-ordered writer programs built by walking the section '
                 'table (<=3 changes x <=3 files, texts <=6 lines incl. '
                 'header-like/hunk-like/BOM/NUL/misaligned-newline lines, '
                 '15 pool codecs, indents 0/1/2/4/7/13, line endings '
                 'unset/unix/dos); written with the real writer, read with '
                 'the real reader, compared with records constructed from '
                 'the calls; non-trivial = >=2 content sections and one of '
                 '{second change, encoding != main, multi-byte codec, indent '
                 'not in {0,4}, header/hunk-like content, CR/LF mix}'),
    ]
