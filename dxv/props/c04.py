"""C04 -- encoding inheritance follows nesting: nearest ancestor wins,
siblings never leak; diffs never inherit."""

import itertools

from dxv import sut, spec, gen, roundtrip
from dxv.engine import EnumCheck, HypCheck
from dxv.sut import HarnessError

MAIN = 'utf-8'
A = 'utf-16-be'
B = 'cp037'
X = 'utf-32-le'
TEXT = 'é1'
CHOICES = (None, A, B)

ASSUMPTIONS = [
    'the four codecs used (utf-8, utf-16-be, cp037, utf-32-le) are pairwise '
    'incompatible on the probe text, verified at start-up, so a wrong scope '
    'is always visible',
    'scope model: own encoding, else nearest enclosing container declaring '
    'one, else the main encoding; diffs: own encoding or none',
]

_checked = False


def _self_check():
    global _checked

    if _checked:
        return

    codecs_ = (MAIN, A, B, X)
    probe = '{"k": "é1"}\n'

    for a, b in itertools.permutations(codecs_, 2):
        data = probe.encode(a)

        try:
            if data.decode(b) == probe:
                raise HarnessError('%s and %s agree on the probe' % (a, b))
        except UnicodeError:
            pass

    _checked = True


def history_program(history):
    """history: [[change_choice, [file_choice, ...]], ...] with choices in
    {None, A, B}.  Every content section omits its encoding."""
    calls = [
        ['preamble', {'text': TEXT}],
        ['meta', {'metadata': {'where': 'main', 't': TEXT}}],
    ]

    for ci, (cenc, files) in enumerate(history):
        calls.append(['change', {'encoding': cenc} if cenc else {}])
        calls.append(['preamble', {'text': '%s c%d' % (TEXT, ci)}])
        calls.append(['meta', {'metadata': {'where': 'c%d' % ci, 't': TEXT}}])

        for fi, fenc in enumerate(files):
            calls.append(['file', {'encoding': fenc} if fenc else {}])
            calls.append(['meta', {'metadata': {'where': 'c%d f%d' % (ci, fi),
                                                't': TEXT}}])
            calls.append(['diff', {'content': b'\xe9\xff raw bytes'}])

    return {'encoding': MAIN, 'calls': calls}


def overridden_program(history):
    """The same history where every container names a codec Python does not
    have, and every content section declares its own: the own encoding
    wins, so the container's name is never needed."""
    prog = history_program(history)
    calls = []

    for op, kw in prog['calls']:
        kw = dict(kw)

        if op in ('change', 'file'):
            kw['encoding'] = 'x-no-such-codec'
        elif op != 'diff':
            kw['encoding'] = A

        calls.append([op, kw])

    return {'encoding': MAIN, 'calls': calls}


def mainless_program(history):
    """The same history written with no main encoding at all: the first
    container that declares one is not the bottom of anything.  Text
    sections with nothing to inherit declare their own."""
    prog = history_program(history)
    calls = []
    stack = [None]

    for op, kw in prog['calls']:
        kw = dict(kw)

        if op == 'change':
            stack = [None, kw.get('encoding')]
        elif op == 'file':
            stack = stack[:2] + [kw.get('encoding') or stack[1]]
        elif op != 'diff' and stack[-1] is None:
            kw['encoding'] = X

        calls.append([op, kw])

    return {'encoding': None, 'calls': calls}


def nontrivial_history(program):
    """A change follows a file inside a change that declared an encoding, or
    sibling files with different declarations."""
    calls = program['calls']
    cur_change_declares = False
    seen_file = False
    file_encs = []
    res = False

    for op, kw in calls:
        if op == 'change':
            if seen_file and cur_change_declares:
                res = True

            cur_change_declares = kw.get('encoding') is not None
            seen_file = False
            file_encs = []
        elif op == 'file':
            seen_file = True
            file_encs.append(kw.get('encoding'))

            if len(set(file_encs)) > 1:
                res = True

    return res


def foreign_variant(data_segments):
    return b''.join(s[0] for s in data_segments)


def write_with_refused_calls(program, segs):
    import io
    ns = sut.load()
    stream = io.BytesIO()
    writer = ns.DiffXWriter(stream, encoding=program['encoding'])
    w = spec.Walker(program['encoding'])

    for op, kw in program['calls']:
        try:
            gen.call_writer(writer, op, kw)
        except Exception as e:
            return ('legal-call-rejected-after-a-refused-call',
                    '%s after %s: %r' % (op, w.prev, e))

        w.advance(op, kw)

        # content calls that must be refused whatever the position: their
        # own encoding must not stay behind on the open container
        for bad in (['preamble', {'text': 'Résumé', 'encoding': 'ascii'}],
                    ['meta', {'metadata': {'k': 1}, 'encoding': 'hex'}],
                    ['preamble', {'text': '', 'encoding': X}],
                    ['diff', {'content': b'', 'encoding': X}]):
            try:
                gen.call_writer(writer, bad[0], bad[1])
            except Exception:
                continue

            return ('invalid-content-call-accepted',
                    '%s%r accepted after %s' % (bad[0], bad[1], w.prev))

        for bad_op in ('change', 'file'):
            if not w.accepts(bad_op):
                try:
                    gen.call_writer(writer, bad_op, {'encoding': X})
                except Exception:
                    continue

                return ('illegal-container-call-accepted',
                        '%s accepted after %s' % (bad_op, w.prev))

    bad = spec.match_segments(stream.getvalue(), segs)

    if bad is not None:
        i, pos = bad
        return ('refused-call-changed-the-encoding-scope',
                'section %d: got %r' % (i, stream.getvalue()[pos:pos + 80]))

    return None


def judge(program, foreign_le=False):
    """Returns None or (kind, detail)."""
    _self_check()
    ns = sut.load()

    try:
        segs = spec.ref_segments(program)
    except spec.Unencodable:
        return 'excluded', 'unencodable'

    # writer side
    try:
        data = roundtrip.write_program(program)
    except Exception as e:
        return ('writer-rejected-valid-program:%s' % type(e).__name__,
                repr(e))

    bad = spec.match_segments(data, segs)

    if bad is not None:
        i, pos = bad
        return ('writer-encoding-scope',
                'section %d (%s): got %r, expected %r' %
                (i, program['calls'][i - 1][0] if i else 'diffx',
                 data[pos:pos + 80], segs[min(i, len(segs) - 1)][0][:80]))

    # writer side again, with refused container calls interleaved: a call
    # the section order forbids must not touch the encoding scope
    if foreign_le:
        res = write_with_refused_calls(program, segs)

        if res is not None:
            return res

    # reader side, on the writer's bytes and on the reference bytes
    blobs = [('writer-output', data),
             ('reference-output', spec.ref_serialize(program))]

    if foreign_le:
        # what another producer may write: line_endings left out where the
        # first line shows it (only used where byte-level detection is
        # unambiguous)
        blobs.append(('reference-output-without-line_endings',
                      spec.ref_serialize(program, omit_detected_le=True)))

    if foreign_le:
        res = numeric_own_encoding(blobs[1][1])

        if res is not None:
            return res

    for label, blob in blobs:
        recs, err = sut.read_records(blob)

        if err is not None:
            return ('reader-raised:%s' % type(err).__name__,
                    '%s: %r after %d records' % (label, err, len(recs)))

        if label.endswith('without-line_endings'):
            for r in recs:
                if spec.kind_of(r.get('section', 'diffx')) in ('preamble',
                                                                'diff'):
                    r['options'].setdefault(
                        'line_endings',
                        'unix')      # every probe text here is LF-only

        res = roundtrip.compare_records(program, recs)

        if res is not None:
            return 'reader-' + res[0], '%s: %s' % (label, res[1])

    return None


NUMERIC_NAMES = (b'0', b'00', b'-0', b'7')


def numeric_own_encoding(blob):
    """A section's own encoding option wins even when it names nothing
    usable: `encoding=0` on a text section under containers with real
    encodings must be refused, never decoded with an ancestor's."""
    ns = sut.load()
    parsed, ref_err = spec.ref_parse(blob)

    if ref_err is not None:
        raise sut.HarnessError('reference bytes not parsed: %r' % (ref_err,))

    texts = [i for i, r in enumerate(parsed)
             if spec.kind_of(r['section']) in ('preamble', 'meta')]

    if not texts:
        return None

    chosen = texts[len(blob) % len(texts)]

    for idx, rec in enumerate(parsed):
        if idx != chosen:
            continue

        hstart, cstart, _cend = rec['span']
        header = blob[hstart:cstart]

        for name in NUMERIC_NAMES:
            if 'encoding' in rec['options']:
                own = b'encoding=' + str(
                    rec['options']['encoding']).encode('ascii')

                if header.count(own) != 1:
                    break

                new_header = header.replace(own, b'encoding=' + name)
            else:
                # the section gets an own declaration
                colon = header.index(b': ') + 2
                new_header = (header[:colon] + b'encoding=' + name + b', ' +
                              header[colon:])

            mutated = blob[:hstart] + new_header + blob[cstart:]
            recs, err = sut.read_records(mutated)

            if err is None or len(recs) > idx:
                return ('numeric-own-encoding-accepted',
                        'section %d (%s) declaring encoding=%s: %d records, '
                        'error %r' % (idx, rec['section'],
                                      name.decode('ascii'), len(recs), err))

            if not isinstance(err, ns.DiffXParseError):
                return ('numeric-own-encoding-wrong-exception:%s'
                        % type(err).__name__, repr(err))

        break       # one section per history is enough

    return None


def run_case(program, st):
    probe_only = all(kw.get('text', TEXT).startswith(TEXT)
                     for op, kw in program['calls'] if op == 'preamble')
    res = judge(program, foreign_le=probe_only and all(
        kw.get('content') == b'\xe9\xff raw bytes'
        for op, kw in program['calls'] if op == 'diff'))
    nt = nontrivial_history(program)
    nchanges = sum(1 for op, _ in program['calls'] if op == 'change')
    st.case(program, nontrivial=nt,
            classes=['changes-%d' % min(nchanges, 6),
                     'pop-two-or-sibling-shape' if nt else 'simple-shape'])

    if res is None:
        return

    if res[0] == 'excluded':
        st.exclude(res[1])
        return

    st.violation(res[0], res[1], program)


SHAPES = {
    'quick': [(1, 3), (2, 2)],           # (max changes, max files/change)
    'thorough': [(1, 3), (2, 3), (3, 2)],
}


def all_histories(nchanges, max_files):
    per_change = []

    for nf in range(0, max_files + 1):
        for cenc in CHOICES:
            for fencs in itertools.product(CHOICES, repeat=nf):
                per_change.append([cenc, list(fencs)])

    return per_change


def chunks(tier, seed):
    out = []
    seen = set()

    for max_changes, max_files in SHAPES[tier]:
        per = all_histories(1, max_files)

        for nch in range(1, max_changes + 1):
            for first in range(len(per)):
                key = (nch, max_files, first)

                if key not in seen:
                    seen.add(key)
                    out.append(key)

    return out


def run_chunk(chunk, st):
    nch, max_files, first = chunk
    per = all_histories(1, max_files)
    evals = 0
    nontrivial = 0
    sample = None

    for rest in itertools.product(range(len(per)), repeat=nch - 1):
        history = [per[first]] + [per[i] for i in rest]
        program = history_program(history)
        res = judge(program, foreign_le=True)
        evals += 1

        if res is None and len(history) <= 2:
            res = judge(overridden_program(history))
            evals += 1

        if res is None and len(history) <= 2:
            res = judge(mainless_program(history))
            evals += 1

        if nontrivial_history(program):
            nontrivial += 1

            if sample is None:
                sample = {'history': history}

        if res is not None and res[0] != 'excluded':
            st.violation(res[0], res[1], program)

    st.bulk(evals, nontrivial, sample=sample)


def strategy():
    return gen.programs(max_changes=6, max_files=4, pool=(A, B, X, A, B))


# -- content that only an *outer* encoding could decode ------------------

INNER = ('utf-8', 'ascii')
OUTER = ('latin-1', 'cp1252', 'koi8-r')
PLACES = ('change-preamble', 'change-meta', 'file-meta-under-file',
          'file-meta-under-change', 'main-meta-own', 'change-preamble-own')


def misscoped_file(inner, outer, place):
    """(bytes, index of the section that cannot be decoded).  The section
    in question holds bytes that are invalid in the encoding in effect for
    it (`inner`) and fine in the encoding of a container further out."""
    bad_text = b'caf\xe9 au lait\n'
    bad_json = b'{"k": "caf\xe9"}\n'
    good = b'{"k": 1}\n'
    main = outer
    lines = []

    def header(sid, **opts):
        s = '#%s:' % sid

        if opts:
            s += ' ' + ', '.join('%s=%s' % (k.rstrip('_'), v)
                                 for k, v in sorted(opts.items()))

        lines.append(s.encode('ascii') + b'\n')

    def content(sid, data, **opts):
        header(sid, length=len(data), **opts)
        lines.append(data)

    header('diffx', encoding=main, version='1.0')
    index = None

    if place == 'main-meta-own':
        index = 1
        content('.meta', bad_json, encoding=inner, format='json')

    if place in ('change-preamble', 'change-meta', 'file-meta-under-change'):
        header('.change', encoding=inner)
    else:
        header('.change')

    n = len([l for l in lines if l.startswith(b'#')])

    if place == 'change-preamble':
        index = n
        content('..preamble', bad_text, indent=0)
    elif place == 'change-preamble-own':
        index = n
        content('..preamble', bad_text, encoding=inner, indent=0)
    elif place == 'change-meta':
        index = n
        content('..meta', bad_json, format='json')

    if place == 'file-meta-under-file':
        header('..file', encoding=inner)
    else:
        header('..file')

    n = len([l for l in lines if l.startswith(b'#')])

    if place in ('file-meta-under-file', 'file-meta-under-change'):
        index = n
        content('...meta', bad_json, format='json')
    else:
        content('...meta', good, format='json')

    return b''.join(lines), index


def misscoped_chunks(tier, seed):
    return [(i, o, p) for i in INNER for o in OUTER for p in PLACES]


def run_misscoped(chunk, st):
    inner, outer, place = chunk
    ns = sut.load()
    data, index = misscoped_file(inner, outer, place)
    case = {'inner': inner, 'outer': outer, 'place': place}
    recs, err = sut.read_records(data)

    if err is None or len(recs) > index:
        got = recs[index] if len(recs) > index else None
        st.violation('content-decoded-with-an-outer-encoding',
                     '%s under %s (%s): section %d yielded %r'
                     % (inner, outer, place, index, got), case)
    elif not isinstance(err, ns.DiffXParseError):
        st.violation('undecodable-content-wrong-exception:%s'
                     % type(err).__name__, repr(err), case)
    elif len(recs) != index:
        st.violation('undecodable-content-wrong-position',
                     '%d records before the error, expected %d'
                     % (len(recs), index), case)

    try:
        ns.DiffX.from_bytes(data)
    except ns.DiffXParseError:
        pass
    except Exception as e:
        st.violation('undecodable-content-wrong-exception:%s'
                     % type(e).__name__, 'from_bytes: %r' % e, case)
    else:
        st.violation('content-decoded-with-an-outer-encoding',
                     'from_bytes accepted %s under %s (%s)'
                     % (inner, outer, place), case)

    n = 2

    if place == 'change-meta' and inner == 'utf-8' and outer == 'latin-1':
        # no main encoding; a change that declares one; then a sibling that
        # declares none: nothing is inherited across siblings
        for first in ('utf-16-be', 'cp037', 'utf-32-le'):
            blob = (b'#diffx: version=1.0\n#.change: encoding=%s\n'
                    b'#..file:\n#...meta: encoding=ascii, format=json, '
                    b'length=9\n{"a": 1}\n#.change:\n'
                    b'#..meta: format=json, length=9\n{"b": 2}\n#..file:\n'
                    b'#...meta: format=json, length=9\n{"c": 3}\n'
                    % first.encode('ascii'))
            recs, err = sut.read_records(blob)
            got = [r.get('metadata') for r in recs if 'metadata' in r]
            n += 1

            if err is not None or got != [{'a': 1}, {'b': 2}, {'c': 3}]:
                st.violation('sibling-inherited-an-encoding',
                             'no main encoding, first change %s, second '
                             'change declares none: metadata %r, error %r'
                             % (first, got, err), dict(case, first=first))

    if place in ('change-preamble', 'change-preamble-own'):
        # the writer's side: text the encoding in effect cannot represent
        # is refused -- not written in some other encoding
        import io

        for narrow, text in (('ascii', 'caf\xe9'), ('latin-1', '5 \u20ac'),
                             ('cp1252', '\u4e2d')):
            stream = io.BytesIO()
            w = ns.DiffXWriter(stream, encoding='utf-8')
            own = {}

            if place == 'change-preamble':
                w.new_change(encoding=narrow)
            else:
                w.new_change(encoding=outer)
                own = {'encoding': narrow}

            before = stream.getvalue()
            n += 1

            try:
                w.write_preamble(text, **own)
            except Exception:
                if stream.getvalue() != before:
                    st.violation('refused-text-wrote-bytes',
                                 repr(stream.getvalue()[len(before):]),
                                 dict(case, narrow=narrow))

                continue

            st.violation('writer-used-an-encoding-nobody-declared',
                         'write_preamble(%r) where %s is in effect wrote %r'
                         % (text, narrow, stream.getvalue()[len(before):]),
                         dict(case, narrow=narrow))

    st.bulk(n, n, sample=case)


def run_misscoped_case(case, st):
    run_misscoped((case['inner'], case['outer'], case['place']), st)


def checks():
    return [
        EnumCheck(
            'histories', chunks, run_chunk, run_case=run_case,
            rule='every container history main -> (change -> file+)+ within '
                 'the shape bound, each change/file in {omits, utf-16-be, '
                 'cp037}, all content sections inheriting (main preamble, '
                 'main meta, change preamble, change meta, file meta, file '
                 'diff); writer bytes == reference (also when every container '
                 'call the order forbids is attempted, and refused, after '
                 'each step), reader on writer bytes '
                 'and on reference bytes gives the written contents; '
                 'non-trivial = a change follows a file inside a change that '
                 'declared an encoding, or sibling files with different '
                 'declarations; enumerated, hence distinct. (Histories of '
                 'the smaller shapes are re-enumerated inside larger ones '
                 'only where the file bound differs.)',
            bound={'quick': 'shapes (<=1 change x <=3 files), (<=2 x <=2)',
                   'thorough': 'shapes (<=1 x <=3), (<=2 x <=3), (<=3 x <=2)'}),
        EnumCheck(
            'undecodable-in-scope', misscoped_chunks, run_misscoped,
            run_case=run_misscoped_case,
            rule='hand-framed files in which one text section holds bytes '
                 'that are invalid in the encoding in effect for it (utf-8, '
                 'ascii; own or inherited from the nearest container) and '
                 'valid in the encoding of a container further out '
                 '(latin-1, cp1252, koi8-r), at six places of the '
                 'hierarchy: reader and from_bytes must refuse that '
                 'section with DiffXParseError after exactly the records '
                 'before it -- never decode it with the outer encoding; the '
                 'writer must refuse (writing nothing) a preamble the '
                 'encoding in effect (own or inherited: ascii, latin-1, '
                 'cp1252) cannot represent; all non-trivial',
            bound={'quick': '2 x 3 x 6 files', 'thorough': 'same'}),
        HypCheck(
            'random-histories', strategy, run_case,
            budget={'quick': (16, 120), 'thorough': (16, 4000)},
            rule='Hypothesis programs up to 6 changes x 4 files over '
                 '{utf-16-be, cp037, utf-32-le} with content sections '
                 'independently overriding; same oracle; non-trivial as '
                 'above'),
    ]
