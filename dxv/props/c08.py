"""C08 -- reader error contract: any bytes give records or a positioned
parse error; object-model loading raises only the library's errors and
closes the stream."""

import glob
import io
import os
import re
import subprocess
import sys
import tempfile

from hypothesis import strategies as hs

from dxv import sut, spec, foreign, gen
from dxv.engine import HypCheck, EnumCheck, VERIF

ASSUMPTIONS = [
    '"terminates" is decided by a deterministic read budget: a stream that '
    'raises after 2*len(data)+64 read() calls (every read of a terminating '
    'reader consumes a byte or hits EOF)',
    '"line number lies within the input": 0 <= linenum <= number of 0x0A '
    'and 0x25 (EBCDIC LF) bytes + 1',
    'the message must start with "Error on line <linenum+1>" and, iff column '
    'is not None, ", column <column+1>", then ": "',
]

HOSTILE_VALUES = [
    '', '-1', '0', '1', '2', '99999999999999999999', '4294967296',
    '2147483648', 'abc', '1.5', '1e3', 'nope', 'base64', 'hex', 'rot13',
    'utf-7', 'idna', 'punycode', 'undefined', '1252', '037', 'c64', 'mac',
    'unix', 'dos', 'json', 'html', 'utf-16', 'utf-32', 'UTF-16', 'u16',
    'utf-8-sig', 'ascii', 'cp037', 'latin-1', 'a/b', 'text/plain', '1.0',
    '2.0', 'None', 'true', 'x' * 70, 'zlib', 'bz2', 'uu', 'quopri',
    'unicode_escape', 'raw_unicode_escape', 'mbcs', 'oem', '-0', '00', '1_0',
    'utf_16_le', 'utf-16-be', 'big5', 'shift_jis', 'iso2022_jp', 'hz',
    'cp65001', 'string_escape', '7', '100', '4', '\xe9', '\xff',
    '9' * 4300, '9' * 4301, '1' + '0' * 5000, '-' + '9' * 4400,
    # values that are a prefix of their own header line
    '#', '#.', '#..', '#...meta', '#.preamble:',
    # almost-numbers and almost-names: what a backtracking pattern chokes on
    '1.' + '0' * 40 + '-rc1', '0' * 60 + 'x', '1.' * 30 + 'x',
    'a' * 40 + '/', '-' * 50 + 'x', '1' + '_0' * 30 + 'x', '1.0' * 25 + '_',
    'a-' * 30 + '.', '/' * 64,
]
WATCHDOG_S = 60
HOSTILE_KEYS = [
    'length', 'indent', 'encoding', 'line_endings', 'format', 'type',
    'mimetype', 'version', 'meta', 'files', 'diff', 'options', 'subsections',
    'preamble', 'changes', 'content', 'section_id', 'meta_section',
    'diff_section', 'preamble_section', '_level', '_content', 'diff_type',
    'diff_encoding', 'meta_format', 'preamble_indent', 'add_file',
    'generate_stats', 'x', 'Length', 'stats',
]


BOMS = [b'\xef\xbb\xbf', b'\xff\xfe', b'\xfe\xff', b'\xff\xfe\x00\x00',
        b'\x00\x00\xfe\xff']
HOSTILE_CONTENT = BOMS + [b + b'\n' for b in BOMS] + \
    [b + b'{}\n' for b in BOMS] + [
    b'\n', b'\r\n', b'\r', b' ', b'    ', b'    \n', b'\x00', b'\x00\n',
    b'{', b'{}', b'[]\n', b'null\n', b'"s"\n', b'5\n', b'\xff\n',
    b'\n\x00', b'\x00\n\x00', b'\n\x00\x00\x00', b'\x25', b'{}\x25',
    b'\r\n\r\n', b'\n\n', b'a', b'a\r', b'\xef\xbb\xbf\xef\xbb\xbf\n',
    b'#diffx: version=1.0\n', b'#.change:\n',
    # deeply nested JSON
    b'[' * 5000 + b']' * 5000 + b'\n',
    b'{"a":' * 3000 + b'1' + b'}' * 3000 + b'\n',
    b'[' * 200000 + b'\n',
    # first line CRLF, last line bare LF
    b'a\r\nb\n', b'{\r\n"a": 1}\n', b'x\r\n\n',
    # a raw control character in a string, then nesting beyond any limit
    b'{"a": "x\x01y", "b": ' + b'[' * 5000 + b']' * 5000 + b'}\n',
    b'{"a": "tab\there", "b": ' + b'{"k":' * 3000 + b'1' + b'}' * 3000 +
    b'}\n',
    # one object repeating a key, with values of different types
    b'{"a": {}, "a": {}}\n', b'{"a": 1, "a": "x"}\n',
    b'{"a": null, "a": 1, "b": [], "b": {}}\n',
    b'{"k": [{"a": 1, "a": [1]}], "k": 2}\n',
    b'{"a": 1e400, "b": -0.0, "c": 123456789012345678901234567890}\n',
]


def corpus_files(small=False):
    out = []
    pats = [os.path.join(VERIF, 'corpus', '*.diff')]

    if small:
        pats.append(os.path.join(VERIF, 'corpus', 'small', '*.diffx'))

    for p in sorted(f for pat in pats for f in glob.glob(pat)):
        with open(p, 'rb') as fp:
            out.append(fp.read())

    return out


@hs.composite
def base_files(draw):
    which = draw(hs.integers(0, 10))

    if which < 2:
        return draw(hs.sampled_from(corpus_files()))

    if which == 10:
        # a random legal walk over the section table, minimal content
        from dxv.props import c10
        n = draw(hs.integers(3, 40))
        walk = ['diffx']

        for _ in range(n):
            walk.append(draw(hs.sampled_from(spec.TABLE[walk[-1]])))

        return b''.join(c10.section_bytes(sid) for sid in walk)

    if which < 6:
        doc = draw(foreign.docs(max_changes=2, max_files=2,
                                allow_nonobject_meta=True))
        return foreign.render(doc).data

    prog = draw(gen.programs(max_changes=2, max_files=2))

    try:
        return spec.ref_serialize(prog)
    except spec.Unencodable:
        return b'#diffx: version=1.0\n#.change:\n'


@hs.composite
def corrupted(draw):
    data = bytearray(draw(base_files()))
    n = draw(hs.sampled_from([1, 1, 1, 2, 2, 3]))

    for _ in range(n):
        kind = draw(hs.sampled_from(
            ['option-value', 'option-value', 'option-value', 'option-add',
             'two-options', 'two-options',
             'option-add', 'byte-flip', 'byte-insert', 'byte-delete',
             'range-delete', 'line-delete', 'line-dup', 'cr-insert',
             'truncate', 'header-newline', 'container-attr',
             'container-attr', 'content-replace', 'content-replace',
             'long-run', 'blank-run', 'two-options']))
        headers = [m for m in re.finditer(rb'(?m)^#\.{0,3}[a-z]+:[^\n]*\n',
                                          bytes(data))]

        if kind == 'option-value' and headers:
            m = draw(hs.sampled_from(headers))
            opts = list(re.finditer(rb'([A-Za-z_-]+)=([^,\r\n]*)',
                                    m.group(0)))

            if opts:
                o = draw(hs.sampled_from(opts))
                v = draw(hs.sampled_from(HOSTILE_VALUES)).encode('latin-1')
                s = m.start() + o.start(2)
                data[s:s + len(o.group(2))] = v
        elif kind == 'two-options' and headers:
            # two options of one header become hostile at the same time
            m = draw(hs.sampled_from(headers))
            line = m.group(0)
            body = line.rstrip(b'\r\n')
            tail = line[len(body):]
            colon = body.index(b':') + 1
            keys = draw(hs.lists(hs.sampled_from(
                ['length', 'indent', 'encoding', 'line_endings', 'format']),
                min_size=2, max_size=2, unique=True))

            if b'preamble' in body[:colon] and draw(hs.booleans()):
                keys = ['length', 'indent']
            nums = ['4294967295', '4294967296', '18446744073709551616',
                    '99999999999999999999', '2147483648', '0', '-1', '1']
            pairs = []

            for k in keys:
                pool = nums if k in ('length', 'indent') else HOSTILE_VALUES
                v = draw(hs.sampled_from(pool)) or 'v'
                pairs.append(k.encode() + b'=' + v.encode('latin-1'))

            rest = [p_ for p_ in body[colon:].strip().split(b', ')
                    if p_ and p_.split(b'=')[0].decode('latin-1')
                    not in keys]
            data[m.start():m.end()] = (body[:colon] + b' ' +
                                       b', '.join(pairs + rest) + tail)
        elif kind == 'option-add' and headers:
            m = draw(hs.sampled_from(headers))
            k = draw(hs.sampled_from(HOSTILE_KEYS)).encode('ascii')
            v = draw(hs.sampled_from(HOSTILE_VALUES)).encode('latin-1') \
                or b'v'
            line = m.group(0)
            body = line.rstrip(b'\r\n')
            tail = line[len(body):]
            sep = b' ' if body.endswith(b':') else b', '

            if draw(hs.booleans()):
                new = body + sep + k + b'=' + v + tail
            else:
                # in front of the existing options
                colon = body.index(b':') + 1
                rest = body[colon:].lstrip(b' ')
                new = (body[:colon] + b' ' + k + b'=' + v +
                       (b', ' + rest if rest else b'') + tail)

            data[m.start():m.end()] = new
        elif kind == 'container-attr' and headers:
            # an option named like an object-model attribute on a container
            cont = [m for m in headers
                    if re.match(rb'#(diffx|\.change|\.\.file):', m.group(0))]

            if cont:
                m = draw(hs.sampled_from(cont))
                k = draw(hs.sampled_from(HOSTILE_KEYS)).encode('ascii')
                v = draw(hs.sampled_from(['abc', '5', '0', 'utf-8', 'x/y',
                                          'json'])).encode('ascii')
                line = m.group(0)
                body = line.rstrip(b'\r\n')
                tail = line[len(body):]
                sep = b' ' if body.endswith(b':') else b', '
                data[m.start():m.end()] = body + sep + k + b'=' + v + tail
        elif kind == 'content-replace':
            # hostile content with a matching length option
            recs, perr = spec.ref_parse(bytes(data))
            content = [r for r in recs if r['kind'] != 'container']

            if content:
                r = draw(hs.sampled_from(content))
                new = draw(hs.sampled_from(HOSTILE_CONTENT))
                hs_, cs, ce = r['span']
                header = re.sub(rb'length=[0-9]+',
                                b'length=%d' % len(new), bytes(data[hs_:cs]))
                data[hs_:ce] = header + new
        elif kind == 'long-run':
            n = draw(hs.sampled_from([95, 96, 97, 4095, 4096, 4097, 8192,
                                      65536]))
            run = draw(hs.sampled_from([b'x', b'#', b' ', b'a=b, ',
                                        b'\x00'])) * n
            run = run[:n]
            where = draw(hs.sampled_from(['start', 'header', 'header-end',
                                          'anywhere']))

            if where == 'start' or not headers:
                data[0:0] = run
            elif where == 'anywhere':
                i = draw(hs.integers(0, len(data)))
                data[i:i] = run
            else:
                m = draw(hs.sampled_from(headers))
                i = m.start() if where == 'header' else m.end() - 1
                data[i:i] = run
        elif kind == 'blank-run' and headers:
            m = draw(hs.sampled_from(headers))
            n = draw(hs.sampled_from([47, 48, 49, 95, 96, 97, 200, 1000]))
            data[m.start():m.start()] = draw(hs.sampled_from(
                [b'\n', b'\r\n', b' \n'])) * n
        elif kind == 'byte-flip' and data:
            i = draw(hs.integers(0, len(data) - 1))
            data[i] = draw(hs.integers(0, 255))
        elif kind == 'byte-insert':
            i = draw(hs.integers(0, len(data)))
            data[i:i] = draw(hs.binary(min_size=1, max_size=3))
        elif kind == 'byte-delete' and data:
            i = draw(hs.integers(0, len(data) - 1))
            del data[i]
        elif kind == 'range-delete' and data:
            i = draw(hs.integers(0, len(data) - 1))
            del data[i:i + draw(hs.integers(1, 40))]
        elif kind in ('line-delete', 'line-dup') and data:
            lines = bytes(data).split(b'\n')
            i = draw(hs.integers(0, len(lines) - 1))

            if kind == 'line-delete':
                del lines[i]
            else:
                lines.insert(i, lines[i])

            data = bytearray(b'\n'.join(lines))
        elif kind == 'cr-insert':
            nls = [i for i, b in enumerate(data) if b == 10]

            if nls:
                i = draw(hs.sampled_from(nls))
                data[i:i] = b'\r'
        elif kind == 'truncate' and data:
            del data[draw(hs.integers(0, len(data) - 1)):]
        elif kind == 'header-newline' and headers:
            # change the newline style of every header from some point on
            k = draw(hs.integers(0, len(headers) - 1))
            out = bytearray()
            pos = 0

            for idx, m in enumerate(headers):
                out += data[pos:m.start()]
                line = m.group(0)

                if idx >= k:
                    if line.endswith(b'\r\n'):
                        line = line[:-2] + b'\n'
                    else:
                        line = line[:-1] + b'\r\n'

                out += line
                pos = m.end()

            out += data[pos:]
            data = out

    return {'data': bytes(data)}


TOKENS = [b'#diffx:', b'#.change:', b'#..file:', b'#...meta:', b'#...diff:',
          b'#.preamble:', b'#.meta:', b'#..preamble:', b'#..meta:',
          b' version=1.0', b' length=2', b' length=3', b', ', b'=', b'\n',
          b'\r\n', b'{}\n', b'a\n', b' encoding=utf-8', b' encoding=utf-16',
          b' indent=4', b' line_endings=dos', b' format=json', b' ', b'#',
          b'.', b':', b'\x00', b'\xff', b'length=', b'1', b'0', b'-']


@hs.composite
def random_bytes(draw):
    if draw(hs.booleans()):
        return {'data': draw(hs.binary(max_size=200))}

    toks = draw(hs.lists(hs.one_of(hs.sampled_from(TOKENS),
                                   hs.binary(max_size=6)), max_size=40))
    data = b''.join(toks)

    if draw(hs.integers(0, 5)) == 0:
        # a very long first line / run without any newline
        n = draw(hs.sampled_from([96, 4095, 4096, 4097, 8192, 70000]))
        data = draw(hs.sampled_from([b'x', b'#', b'#diffx: a=', b' '])) * n \
            + data

    return {'data': data}


def line_bound(data):
    return data.count(b'\n') + data.count(b'\x25') + 1


def judge(data, st, case):
    """Apply the whole contract to one input; returns a progress label."""
    ns = sut.load()
    label = 'fully-accepted'

    # 1. streaming reader
    recs, err = sut.read_records(data)

    bad = spec.illegal_step([r.get('section') for r in recs])

    if bad is not None:
        st.violation('reader:yielded-sections-in-illegal-order',
                     'sections %r' % ([r.get('section')
                                       for r in recs[max(0, bad - 2):bad + 1]],),
                     case)

    if isinstance(err, sut.ReadBudgetExceeded):
        st.violation('reader:no-termination',
                     'more than %d read() calls on %d bytes'
                     % (2 * len(data) + 64, len(data)), case)
        label = 'no-termination'
    elif err is not None:
        label = 'rejected-at-line-0' if not recs else 'some-records'

        if not isinstance(err, ns.DiffXParseError):
            where = sut.innermost_pydiffx_frame(err)
            st.violation('reader:%s@%s:%s' % (type(err).__name__, where[0],
                                              where[1]),
                         '%r after %d records' % (err, len(recs)), case)
        else:
            ln = getattr(err, 'linenum', None)
            col = getattr(err, 'column', None)

            if type(ln) is not int or ln < 0 or ln > line_bound(data):
                st.violation('reader:linenum-outside-input',
                             'linenum=%r for an input of %d lines: %s'
                             % (ln, line_bound(data), err), case)
            else:
                prefix = 'Error on line %d' % (ln + 1)

                if col is not None:
                    if type(col) is not int or col < 0:
                        st.violation('reader:bad-column', 'column=%r' % col,
                                     case)
                        col = 0

                    prefix += ', column %d' % (col + 1)

                if not str(err).startswith(prefix + ': '):
                    st.violation('reader:message-disagrees-with-attributes',
                                 'linenum=%r column=%r message=%r'
                                 % (ln, col, str(err)), case)

    # 2. object model from bytes
    t1 = e1 = None

    try:
        t1 = ns.DiffX.from_bytes(data)
    except ns.BaseDiffXError as e:
        e1 = e
    except Exception as e:
        e1 = e
        where = sut.innermost_pydiffx_frame(e)
        st.violation('from_bytes:%s@%s:%s' % (type(e).__name__, where[0],
                                              where[1]), repr(e), case)

    # 3. object model from a stream: closed in both outcomes, and the same
    #    result as from bytes and as an explicitly constructed DOM reader
    stream = io.BytesIO(data)
    t2 = e2 = None

    try:
        t2 = ns.DiffX.from_stream(stream)
    except Exception as e:
        e2 = e

    t3 = e3 = None

    try:
        t3 = ns.DiffXDOMReader(ns.DiffX).parse(io.BytesIO(data))
    except Exception as e:
        e3 = e

    from dxv import trees

    for label, t, e in (('from_stream', t2, e2), ('DiffXDOMReader', t3, e3)):
        if (t is None) != (t1 is None) or type(e) is not type(e1):
            st.violation('loading-paths-disagree',
                         'from_bytes: %r / %s: %r' % (e1 or 'ok', label,
                                                      e or 'ok'), case)
        elif t is not None and not trees.snap_eq(trees.snapshot(t),
                                                 trees.snapshot(t1)):
            st.violation('loading-paths-disagree',
                         '%s gives a different tree than from_bytes: %s'
                         % (label, trees.snap_diff(trees.snapshot(t1),
                                                   trees.snapshot(t))), case)

    # the tree carries what the streaming reader yielded
    if t1 is not None and err is None:
        want = [] if recs else [('diffx', None)]

        for r in recs:
            kind = spec.kind_of(r['section'])
            c = None

            if kind != 'container':
                c = r.get(foreign.CONTENT_KEY[kind])

                if not c:
                    continue

            want.append((r['section'], c))

        got = trees.content_list(trees.snapshot(t1))
        got = [('diffx', None) if i == 0 else x for i, x in enumerate(got)]

        if got != want:
            st.violation('tree-differs-from-streamed-records',
                         'object model: %r, reader: %r'
                         % (_short(got), _short(want)), case)

    if not stream.closed:
        st.violation('from_stream:stream-left-open',
                     'stream.closed is False after loading', case)

    return label, len(recs)


class InjectedFault(OSError):
    pass


class FaultyStream(io.BytesIO):
    """Raises on the k-th read()/seek() call (k counted over both)."""

    def __init__(self, data, fail_at=None):
        io.BytesIO.__init__(self, data)
        self.calls = 0
        self.fail_at = fail_at

    def _tick(self):
        self.calls += 1

        if self.fail_at is not None and self.calls == self.fail_at:
            raise InjectedFault('injected I/O fault at call %d' % self.calls)

    def read(self, *a):
        self._tick()
        return io.BytesIO.read(self, *a)

    def seek(self, *a):
        self._tick()
        return io.BytesIO.seek(self, *a)


def run_io_faults(case, st):
    """Every fault point of loading one file from a stream."""
    ns = sut.load()
    data = case['data']
    probe = FaultyStream(data)

    try:
        ns.DiffX.from_stream(probe)
    except Exception:
        pass

    n = probe.calls
    st.case(case, nontrivial=n >= 4,
            classes=['stream-calls-%s' % (n if n < 10 else '10+')])
    st.classes['fault-points'] += n

    if not probe.closed:
        st.violation('from_stream:stream-left-open',
                     'no fault injected; stream.closed is False', case)

    for k in ([case['fail_at']] if 'fail_at' in case else range(1, n + 1)):
        stream = FaultyStream(data, fail_at=k)
        raised = None

        try:
            ns.DiffX.from_stream(stream)
        except BaseException as e:
            raised = e

        if not stream.closed:
            st.violation('from_stream:stream-left-open-after-io-fault',
                         'read()/seek() call %d of %d raised; stream.closed '
                         'is False afterwards (exception seen by the '
                         'caller: %r)' % (k, n, raised),
                         dict(case, fail_at=k))
        elif raised is None and stream.calls >= k:
            st.violation('from_stream:io-fault-swallowed',
                         'the fault injected at call %d of %d disappeared '
                         'and loading returned normally' % (k, n),
                         dict(case, fail_at=k))


@hs.composite
def io_cases(draw):
    if draw(hs.integers(0, 3)) == 0:
        return draw(corrupted())

    return {'data': draw(base_files())}


def _short(v):
    s = repr(v)
    return s if len(s) < 300 else s[:300] + '...'


def run_case(case, st):
    data = case['data']

    try:
        with sut.watchdog(WATCHDOG_S):
            label, nrecs = judge(data, st, case)
    except sut.WatchdogTimeout:
        # inputs are at most a few hundred KB and take milliseconds
        st.violation('no-termination-within-%ds' % WATCHDOG_S,
                     '%d bytes still being processed' % len(data), case)
        label, nrecs = 'no-termination', 0

    reached_content = nrecs >= 1
    st.case(case, nontrivial=reached_content,
            classes=[label, 'records-%s' % (nrecs if nrecs < 5 else '5+')])


# -- every option value of the corpus x every hostile value -----------------

OPTION_RE = re.compile(rb'([A-Za-z][A-Za-z0-9_-]*)=([A-Za-z0-9/._-]+)')


def sweep_chunks(tier, seed):
    return list(range(len(corpus_files(small=True))))


def attribute_names():
    """Every name a section object of the object model answers to (class
    attributes, properties, methods, private slots) that can stand as an
    option key."""
    ns = sut.load()
    names = set(HOSTILE_KEYS)

    for obj in vars(ns.dom).values():
        if isinstance(obj, type):
            for n in dir(obj):
                names.add(n)
                names.add(n.strip('_'))

    return sorted(n for n in names
                  if spec.KEY_RE.fullmatch(n.encode('ascii', 'replace')))


def run_key_sweep(index, st, data, recs):
    """Every such name as an extra option on every header of one file."""
    evals = nontrivial = 0

    for rec in recs:
        hstart, cstart, _cend = rec['span']
        header = data[hstart:cstart]
        body = header.rstrip(b'\r\n')
        tail = header[len(body):]
        sep = b' ' if body.endswith(b':') else b', '

        for name in attribute_names():
            for value in (b'x', b'1'):
                blob = (data[:hstart] + body + sep + name.encode('ascii') +
                        b'=' + value + tail + data[cstart:])
                case = {'data': blob}

                try:
                    with sut.watchdog(WATCHDOG_S):
                        _label, nrecs = judge(blob, st, case)
                except sut.WatchdogTimeout:
                    st.violation('no-termination-within-%ds' % WATCHDOG_S,
                                 '%s on %s' % (name, rec['section']), case)
                    nrecs = 0

                evals += 1
                nontrivial += nrecs >= 1

    return evals, nontrivial


def run_sweep_chunk(index, st):
    data = corpus_files(small=True)[index]
    recs, _err = spec.ref_parse(data)
    evals = 0
    nontrivial = 0
    sample = None

    if index % 8 == 0:
        # (four files are enough: the names matter, not the files)
        evals, nontrivial = run_key_sweep(index, st, data, recs)

    # two faults on one content header: an option of the wrong type and
    # content that cannot be read
    for rec in recs:
        if rec['kind'] == 'container':
            continue

        hstart, cstart, cend = rec['span']
        header = data[hstart:cstart]
        body = header.rstrip(b'\r\n')
        tail = header[len(body):]

        for extra in (b'mimetype=7', b'mimetype=0', b'format=7', b'type=5',
                      b'line_endings=3', b'encoding=12', b'indent=x'):
            for damage in ('cut', 'badbyte'):
                content = data[cstart:cend]
                content = (content[:-1] + b'x' if damage == 'cut'
                           else b'\xff\xfe\xfd' + content[3:])
                blob = (data[:hstart] + body + b', ' + extra + tail +
                        content + data[cend:])
                case = {'data': blob}

                try:
                    with sut.watchdog(WATCHDOG_S):
                        judge(blob, st, case)
                except sut.WatchdogTimeout:
                    st.violation('no-termination-within-%ds' % WATCHDOG_S,
                                 '%r on %s' % (extra, rec['section']), case)

                evals += 1

    for rec in recs:
        hstart, cstart, _cend = rec['span']
        header = data[hstart:cstart]

        for m in OPTION_RE.finditer(header):
            for v in HOSTILE_VALUES:
                try:
                    value = v.encode('ascii')
                except UnicodeEncodeError:
                    value = v.encode('latin-1')

                blob = (data[:hstart + m.start(2)] + value +
                        data[hstart + m.end(2):])
                case = {'data': blob}
                before = len(st.buckets)

                try:
                    with sut.watchdog(WATCHDOG_S):
                        _label, nrecs = judge(blob, st, case)
                except sut.WatchdogTimeout:
                    st.violation('no-termination-within-%ds' % WATCHDOG_S,
                                 '%s=%s on %s' % (m.group(1).decode(), v[:40],
                                                  rec['section']), case)
                    nrecs = 0

                evals += 1

                if nrecs >= 1:
                    nontrivial += 1

                    if sample is None:
                        sample = {'file': index, 'section': rec['section'],
                                  'option': m.group(1).decode('ascii'),
                                  'value': v[:60]}

    st.bulk(evals, nontrivial, sample=sample)


# -- coverage-guided fuzzing (thorough tier) -----------------------------

def atheris_chunks(tier, seed):
    if tier != 'thorough':
        return []

    return [('shard', i, seed) for i in range(16)]


def write_dictionary(path):
    """libFuzzer dictionary: header tokens plus the hostile option values
    and keys of the structured corruptions (a coverage-guided fuzzer cannot
    guess codec names)."""
    def esc(b):
        return '"' + ''.join('\\x%02x' % c for c in b) + '"'

    toks = set(TOKENS)

    with open(os.path.join(VERIF, 'dxv', 'c08.dict')) as fp:
        base = fp.read()

    for v in HOSTILE_VALUES:
        b = v.encode('latin-1')

        if b:
            toks.add(b)

            for k in ('encoding', 'length', 'indent', 'line_endings',
                      'format', 'version'):
                kv = k.encode() + b'=' + b
                toks.add(kv)
                toks.add(b' ' + kv)          # first option of a header
                toks.add(b', ' + kv)         # appended option
                toks.add(kv + b', ')         # prepended option

    for k in HOSTILE_KEYS:
        toks.add(k.encode() + b'=')
        toks.add(b', ' + k.encode() + b'=abc')

    with open(path, 'w') as fp:
        fp.write(base)

        for t in sorted(toks):
            if 0 < len(t) <= 64:
                fp.write(esc(t) + '\n')


def run_atheris(chunk, st):
    _, shard, seed = chunk
    deps = os.path.join(VERIF, '.deps')

    if not os.path.isdir(os.path.join(deps, 'atheris')):
        st.notes['atheris'] = 'not installed (setup.sh); shard skipped'
        return

    tmp = tempfile.mkdtemp(prefix='dxv_c08_')

    try:
        corpus = os.path.join(tmp, 'corpus')
        os.mkdir(corpus)

        if shard != 0:        # shard 0 starts from an empty corpus
            for i, blob in enumerate(corpus_files(small=True)):
                with open(os.path.join(corpus, 'seed%d' % i), 'wb') as fp:
                    fp.write(blob)

        dict_path = os.path.join(tmp, 'tokens.dict')
        write_dictionary(dict_path)
        env = dict(os.environ)
        env['PYTHONPATH'] = VERIF + os.pathsep + deps
        env['DXV_FUZZ_OUT'] = tmp
        runs = int(1200000 * float(os.environ.get('VERIF_BUDGET_SCALE', '1')))
        cmd = [sys.executable, '-m', 'dxv.fuzz_c08', corpus,
               '-runs=%d' % runs, '-seed=%d' % (seed * 100 + shard + 1),
               '-max_len=2048', '-dict=' + dict_path,
               '-artifact_prefix=' + tmp + '/', '-print_final_stats=1']
        p = subprocess.run(cmd, env=env, stdout=subprocess.PIPE,
                           stderr=subprocess.STDOUT, timeout=3000)
        out = p.stdout.decode('latin-1')
        m = re.search(r'stat::number_of_executed_units:\s*(\d+)', out)
        execs = int(m.group(1)) if m else 0
        found = sorted(glob.glob(os.path.join(tmp, 'violation-*')))
        st.bulk(execs, min(execs, len(os.listdir(corpus))),
                classes={'atheris-execs': execs,
                         'atheris-corpus-units': len(os.listdir(corpus))},
                sample={'shard': shard, 'execs': execs,
                        'corpus_units': len(os.listdir(corpus))})

        for f in found:
            with open(f, 'rb') as fp:
                data = fp.read()

            judge(data, st, {'data': data})

        if p.returncode != 0 and not found:
            st.notes['atheris-shard-%d' % shard] = out[-400:]
    finally:
        import shutil
        shutil.rmtree(tmp, ignore_errors=True)


def checks():
    return [
        HypCheck(
            'corruptions', corrupted, run_case,
            budget={'quick': (16, 220), 'thorough': (16, 25000)},
            rule='1-3 corruptions (hostile option values/keys from a '
                 'dictionary, byte flip/insert/delete, range and line '
                 'deletion/duplication, CR insertion, header newline style '
                 'change, truncation) of well-formed files (foreign '
                 'generator, reference-serialised programs, the 7 spec '
                 'examples); non-trivial = the reader produced >= 1 record '
                 '(the input got past the main header)'),
        HypCheck(
            'random-bytes', random_bytes, run_case,
            budget={'quick': (8, 300), 'thorough': (16, 20000)},
            rule='arbitrary bytes and token soups of DiffX fragments; '
                 'non-trivial = the reader produced >= 1 record'),
        HypCheck(
            'io-faults', io_cases, run_io_faults,
            budget={'quick': (8, 40), 'thorough': (16, 2000)},
            rule='loading from a stream whose k-th read()/seek() raises, '
                 'for EVERY k up to the number of calls an undisturbed load '
                 'makes (well-formed and corrupted files): the stream must '
                 'be closed afterwards and the fault must not vanish; '
                 'non-trivial = the undisturbed load makes >= 4 stream '
                 'calls'),
        EnumCheck(
            'option-value-sweep', sweep_chunks, run_sweep_chunk,
            run_case=run_case,
            rule='every option value of every header of the 7 spec examples '
                 'and the 25 small corpus files replaced by every entry of '
                 'the hostile-value dictionary (numbers around every limit, '
                 'codec names of every kind, almost-numbers that make a '
                 'backtracking pattern explode); on four of the files also '
                 'every attribute / method name of the object-model classes '
                 'as an extra option key on every header; whole contract, 60 s '
                 'watchdog; non-trivial = the reader produced >= 1 record',
            bound={'quick': 'all (file, header, option, hostile value) '
                            'combinations', 'thorough': 'same'}),
        EnumCheck(
            'atheris', atheris_chunks, run_atheris, run_case=run_case,
            exhaustive=False,
            rule='thorough tier only: atheris/libFuzzer coverage-guided '
                 'mutation of the spec examples with a header-token '
                 'dictionary, 15 seeded shards + 1 empty-corpus shard, the '
                 'whole contract as the in-target oracle; counts executed '
                 'units, non-trivial = units kept in the corpus (new '
                 'coverage)',
            bound={'quick': 'not run in the quick tier',
                   'thorough': '16 shards x 1200000 executions'}),
    ]
