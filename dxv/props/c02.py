"""C02 -- writer emits only spec-conformant, canonical DiffX bytes."""

import json

from dxv import sut, spec, gen, roundtrip
from dxv.engine import HypCheck, EnumCheck

ASSUMPTIONS = [
    'metadata may be rendered with or without ASCII escaping (the '
    'specification fixes sorting and indentation only)',
    'indentation is applied to the lines of the encoded bytes (split on the '
    'BOM-free encoded newline)',
    'BOM-emitting codecs use the platform byte order, as CPython does',
]


def validate(data, program):
    """Structural validator, independent of ref_serialize: walks the bytes
    with the grammar and the strict reference parser."""
    recs, err = spec.ref_parse(data)

    if err is not None:
        return ('not-well-formed',
                '%s at logical line %d' % (err.reason, err.line_lo))

    if len(recs) != len(program['calls']) + 1:
        return 'section-count', '%d sections' % len(recs)

    for r in recs:
        hstart, cstart, cend = r['span']
        header = data[hstart:cstart]

        if not header.endswith(b'\n') or header.endswith(b'\r\n'):
            return 'header-terminator', repr(header)

        try:
            header.decode('ascii')
        except UnicodeDecodeError:
            return 'header-not-ascii', repr(header)

        sid, pairs = spec.parse_header(header[:-1])
        keys = [k for k, _ in pairs]

        if keys != sorted(keys) or len(set(keys)) != len(keys):
            return 'options-not-sorted', repr(header)

        if r['kind'] == 'container':
            continue

        if r['options'].get('length') != cend - cstart:
            return 'length-mismatch', repr(header)

        # what follows the content is a header or EOF
        if cend != len(data) and data[cend:cend + 1] != b'#':
            return 'length-does-not-land-on-header', repr(header)

        if r['kind'] != 'meta' and r['options'].get('line_endings') not in (
                'unix', 'dos'):
            return 'line-endings-missing', repr(header)

        if r['kind'] == 'meta':
            if r['options'].get('format') != 'json':
                return 'format-missing', repr(header)

            raw = data[cstart:cend]
            enc = r['options'].get('encoding')
            # effective encoding is judged by ref_parse having decoded it
            value = r['content']
            texts = spec.json_texts(value)
            # the section's text, decoded by the reference parser's codec
            ok = False

            mkind = r['options'].get('line_endings', 'unix')

            for t in texts:
                if mkind == 'dos':
                    t = t.replace('\n', '\r\n')

                for codec in _codecs_of(program, recs, r):
                    try:
                        if raw == t.encode(codec) + spec.nl_bytes(mkind,
                                                                  codec):
                            ok = True
                    except UnicodeError:
                        pass

            if not ok:
                return ('metadata-not-canonical-json',
                        '%r' % raw[:120])

        if r['kind'] == 'preamble':
            indent = r['options'].get('indent')

            if type(indent) is not int:
                return 'indent-missing', repr(header)

            raw = data[cstart:cend]
            codec = _codecs_of(program, recs, r)[0]
            nl = spec.nl_bytes(r['options']['line_endings'], codec)

            for ln in spec.split_keep(raw, nl):
                if not ln.startswith(b' ' * indent):
                    return ('line-not-indented',
                            'line %r lacks %d spaces' % (ln[:40], indent))

    return None


def _codecs_of(program, recs, r):
    """Effective codec of content record r according to nesting."""
    idx = recs.index(r)
    own = r['options'].get('encoding')

    if own is not None:
        return [own]

    if r['kind'] == 'diff':
        return ['ascii']

    lvl = r['level']
    want = lvl - 1
    # nearest enclosing container that declares an encoding
    for j in range(idx - 1, -1, -1):
        c = recs[j]

        if c['kind'] == 'container' and c['level'] <= want:
            want = c['level'] - 1

            if c['options'].get('encoding') is not None:
                return [c['options']['encoding']]

    return ['ascii']


def run_case(program, st):
    labels, nontrivial = gen.program_features(program)
    st.case(program, nontrivial=nontrivial, classes=labels)

    try:
        segs = spec.ref_segments(program)
    except spec.Unencodable:
        st.exclude('unencodable-text')
        return

    try:
        data = roundtrip.write_program(program)
    except Exception as e:
        st.violation('writer-rejected-valid-program:%s' % type(e).__name__,
                     '%s: %s' % (type(e).__name__, e), program)
        return

    bad = spec.match_segments(data, segs)

    if bad is not None:
        i, pos = bad
        call = (['diffx', {}] if i == 0 else
                program['calls'][i - 1] if i <= len(program['calls'])
                else ['<trailing>', {}])
        want = segs[i][0] if i < len(segs) else b''
        st.violation('bytes-differ-from-reference',
                     'section %d (%s): got %r, reference %r'
                     % (i, call[0], data[pos:pos + 100], want[:100]),
                     program)
        return

    res = validate(data, program)

    if res is not None:
        st.violation('validator:' + res[0], res[1], program)
        return

    # the same accepted calls with refused calls in between still give
    # exactly these bytes
    if len(program['calls']) <= 12:
        data2, problem = roundtrip.write_program_with_refused_calls(program)

        if problem is not None:
            st.violation('with-refused-calls:' + problem[0], problem[1],
                         program)
        elif data2 != data:
            i = next((k for k in range(min(len(data), len(data2)))
                      if data[k] != data2[k]), min(len(data), len(data2)))
            st.violation('with-refused-calls:bytes-differ',
                         'at byte %d: %r vs %r' % (i, data[max(0, i - 20):
                                                          i + 40],
                                                   data2[max(0, i - 20):
                                                         i + 40]), program)


def boundary_chunks(tier, seed):
    return list(roundtrip.BOUNDARY_BLOCKS)


def run_boundary_chunk(block, st):
    from dxv.engine import Stats
    progs = roundtrip.boundary_programs(block)

    for prog in progs:
        sub = Stats()
        run_case(prog, sub)

        for kind, b in sub.buckets.items():
            st.violation(kind, b['detail'], prog)

    st.bulk(len(progs), len(progs),
            sample={'block': block, 'programs': len(progs)})


def checks():
    return [
        EnumCheck(
            'size-boundaries', boundary_chunks, run_boundary_chunk,
            run_case=run_case,
            rule='deterministic programs whose first content line ends at '
                 'every offset -2..+1 around 96 B, 1 KiB, 4 KiB, 8 KiB and '
                 '64 KiB (unix/dos, declared or detected, indent 0/4, next '
                 'line starting with a space or not, utf-8 and utf-16-le; '
                 'preamble, inheriting preamble, metadata, diff); all '
                 'non-trivial',
            bound={'quick': '5 blocks x 4 offsets x 64 variants',
                   'thorough': 'same'}),
        HypCheck(
            'programs', lambda: gen.programs(), run_case,
            budget={'quick': (16, 220), 'thorough': (16, 12000)},
            rule='the same program generator as C01; writer bytes compared '
                 'byte for byte with an independent reference serializer and '
                 'walked by a structural validator (ASCII headers, grammar, '
                 'sorted options, legal order, exact length, final newline, '
                 'indentation after encoding, canonical JSON); non-trivial '
                 'as C01'),
    ]
