"""C15 -- newline and BOM handling depends on the codec, not on how its name
is spelled."""

import codecs

from dxv import sut, spec, roundtrip
from dxv.engine import EnumCheck

ASSUMPTIONS = [
    'the catalogue is computed: every name and alias Python registers (plus '
    'hyphen/underscore/case variants) that looks up to a text codec, can '
    'stand as an option value, is not purely numeric, and is stateless by '
    'test (concatenating BOM-free encodings == encoding the concatenation, '
    'round trip exact)',
    'the reference newline is what an incremental encoder emits for LF/CRLF '
    'after a first character (so a BOM has already been written); '
    'BOM-emitting codecs use the platform byte order',
]


def texts_for(entry, kind):
    """A few texts from the codec's repertoire for one line-ending kind."""
    nl = '\n' if kind != 'dos' else '\r\n'
    alpha = [c for c in entry['alphabet'] if c not in '\r\n\x00']
    unit = len(entry['lf'])

    if unit > 1:
        # no code unit may carry a 0x0A / 0x0D byte
        def safe(c):
            e = spec.nl_bytes  # noqa
            b = codecs.getincrementalencoder(entry['canon'])()
            b.encode('x')
            enc = b.encode(c)
            return b'\n' not in enc and b'\r' not in enc

        alpha = [c for c in alpha if safe(c)]

    rich = ''.join(alpha[:6]) or 'abc'
    exotic = ''.join(alpha[-6:]) or 'xyz'
    extra = []

    try:
        if '\ufeff'.encode(entry['canon']).decode(entry['canon']) == '\ufeff':
            extra = ['a' + nl + '\ufeffsecond line starts with U+FEFF' + nl,
                     '\ufefffirst' + nl + 'b']
    except UnicodeError:
        pass

    if len(entry['lf']) > 1:
        # a character whose last byte is 0x0A followed by one that starts
        # with 0x20 (big-endian families), inside an indented line
        for pair in ('\u4e0a\u201c', '\u0a41\u2000'):
            try:
                if pair.encode(entry['canon']).decode(entry['canon']) == pair:
                    extra.append('a' + nl + 'x' + pair + 'y' + nl)
            except UnicodeError:
                pass

    if kind == 'dos':
        # a first line ending exactly at an 8 KiB boundary, followed by a
        # line that starts with a space
        unit = len(entry['lf'])
        extra.append('L' * (8192 // unit - 1) + nl + ' lead' + nl + 'end')

    if len(entry['lf']) > 1 or entry['lf'] != b'\n':
        # one unterminated line with a character whose encoding carries a
        # raw 0x0A byte although it is not a line feed in this codec
        for ch in ('\u4e0a', '\u040a', '\u0a0a', '\x8e'):
            try:
                b = codecs.getincrementalencoder(entry['canon'])()
                b.encode('x')

                if b'\n' in b.encode(ch) and \
                        ch.encode(entry['canon']).decode(entry['canon']) == ch:
                    extra.append('one line ' + ch)
                    break
            except UnicodeError:
                pass

    if len(entry['lf']) > 1:
        # the same traps in the *first* line (where the line endings are
        # guessed from when they are not declared)
        for pair in ('\u0a41\u2000', '\u4100\u0a20', '\u0a0d\u0a00',
                     '\u0d00\u0a00'):
            try:
                if pair.encode(entry['canon']).decode(entry['canon']) == pair:
                    extra.append('x' + pair + 'y' + nl + 'second' + nl)
            except UnicodeError:
                pass

    if kind == 'dos':
        # Git's marker line, LF-terminated, at the end of a CRLF diff
        extra.append('-a' + nl + '\\ No newline at end of file\n')

    # an empty first line, and a lone CR as the very last character
    extra.append(nl + 'x' + nl + 'y\r')

    return extra + [
        'a' + nl + 'b',
        'first line' + nl + rich + nl + '  indented ' + exotic + nl,
        exotic,
    ]


def judge_spelling(canon, entry, spelling, counters):
    """Yields (kind, detail, case) for every discrepancy."""
    ns = sut.load()
    out = []

    # (a) the helpers, where they exist
    for kind in ('unix', 'dos'):
        want = entry['lf'] if kind == 'unix' else entry['crlf']
        fn = getattr(ns.text, 'get_newline_for_type', None)

        if fn is not None:
            counters['helper-calls'] += 1

            try:
                got = fn(kind, spelling)
            except Exception as e:
                got = e

            if got != want:
                out.append(('helper-newline-differs',
                            'get_newline_for_type(%r, %r) = %r, the codec\'s '
                            '%s is %r' % (kind, spelling, got,
                                          'LF' if kind == 'unix' else 'CRLF',
                                          want),
                            {'spelling': spelling, 'canon': canon,
                             'helper': 'get_newline_for_type',
                             'kind': kind}))

        fn = getattr(ns.text, 'guess_line_endings', None)

        if fn is not None:
            counters['helper-calls'] += 1
            sample = ('a' + spec.nl_str(kind) + 'b').encode(canon)

            try:
                got = fn(sample, encoding=spelling)
            except Exception as e:
                got = e

            if got != (kind, want):
                out.append(('helper-guess-differs',
                            'guess_line_endings(%r, %r) = %r, expected %r'
                            % (sample, spelling, got, (kind, want)),
                            {'spelling': spelling, 'canon': canon,
                             'helper': 'guess_line_endings', 'kind': kind}))

    # (a') the object model's statistics split the diff on the codec's
    # newline, not on anything else that may look like a line break
    for kind in ('unix', 'dos'):
        counters['stats-probes'] += 1
        res = judge_stats(entry, spelling, kind)

        if res is not None:
            out.append((res[0], res[1],
                        {'spelling': spelling, 'canon': canon,
                         'stats_probe': kind}))

    # (b), (c) writer and reader
    for le in (None, 'unix', 'dos'):
        for indent in (0, 3):
            for ti, text in enumerate(texts_for(entry, le or 'unix')):
                case = {'spelling': spelling, 'canon': canon,
                        'line_endings': le, 'indent': indent, 'text': text}
                counters['programs'] += 1
                res = judge_program(case)

                if res is not None:
                    out.append((res[0], res[1], case))

    return out


def judge_stats(entry, spelling, kind):
    ns = sut.load()
    canon = entry['canon']
    nl = '\n' if kind == 'unix' else '\r\n'
    specials = [c for c in ('\x0c', '\x0b', '\x1c', '\x85', '\u2028')
                if c in entry['alphabet'] or c in '\x0c\x0b\x1c']
    enc_ok = []

    for c in specials:
        try:
            if c.encode(canon).decode(canon) == c:
                b = codecs.getincrementalencoder(canon)()
                b.encode('x')
                e = b.encode(c)

                if len(entry['lf']) == 1 or (b'\n' not in e and
                                             b'\r' not in e):
                    enc_ok.append(c)
        except UnicodeError:
            pass

    s1 = enc_ok[0] if enc_ok else ''
    s2 = enc_ok[-1] if enc_ok else ''
    text = nl.join(['--- a', '+++ b', '@@ -1,2 +1,2 @@',
                    ' ctx' + s1 + 'tail', '-old' + s2 + 'x', '+new']) + nl

    if kind == 'dos':
        # a bare LF inside a CRLF-terminated line is part of that line
        text = text.replace(' ctx', ' ctx\nsame line, ')
    variants = [('as encoded', text.encode(canon))]
    bom = ''.encode(canon)

    if bom:
        # a codec that writes a BOM reads data without one just as well
        variants.append(('without its BOM', text.encode(canon)[len(bom):]))

    for label, data in variants:
        diffx = ns.DiffX()
        f = diffx.add_change().add_file(meta={'path': 'p'})
        f.diff = data
        f.diff_encoding = spelling

        if kind == 'dos':
            f.diff_line_endings = 'dos'

        try:
            diffx.generate_stats()
        except Exception as e:
            return 'generate_stats-raised:%s' % type(e).__name__, repr(e)

        got = f.meta.get('stats')
        want = {'insertions': 1, 'deletions': 1, 'lines changed': 2}

        if got != want:
            return ('stats-depend-on-codec-or-spelling',
                    'diff_encoding=%r (%s, %s, content %s): stats %r, '
                    'expected %r' % (spelling, canon, kind, label, got, want))

    return None


def program_for(case, name):
    kw = {'text': case['text'], 'encoding': name, 'indent': case['indent']}
    dkw = {'content': case['text'].encode(case['canon']), 'encoding': name}

    if case['line_endings']:
        kw['line_endings'] = case['line_endings']
        dkw['line_endings'] = case['line_endings']

    if case['indent']:
        dkw['diff_type'] = 'binary'

    if case['canon'] in ('utf-16', 'utf-32') and case['indent'] == 0:
        # the diff's bytes in the other byte order, with its BOM: the
        # section's newline is still the codec's own
        be = case['canon'] + '-be'
        dkw['content'] = '\ufeff'.encode(be) + case['text'].encode(be)

    return {'encoding': 'utf-8', 'calls': [
        ['preamble', kw],
        ['change', {'encoding': name}],
        ['preamble', {'text': case['text'], 'indent': case['indent']}],
        ['file', {}],
        ['meta', {'metadata': {'text': case['text'], 'n': 1}}],
        ['diff', dkw],
    ]}


def judge_program(case):
    spelled = program_for(case, case['spelling'])
    canonical = program_for(case, case['canon'])

    try:
        data = roundtrip.write_program(spelled)
    except Exception as e:
        return ('writer-rejected-spelling:%s' % type(e).__name__,
                '%r: %r' % (case['spelling'], e))

    # spelling independence of the bytes
    try:
        ref = roundtrip.write_program(canonical)
    except Exception as e:
        return ('writer-rejected-canonical-name:%s' % type(e).__name__,
                repr(e))

    s, c = case['spelling'].encode('ascii'), case['canon'].encode('ascii')

    if _rename(data, s, c) != ref:
        return ('bytes-depend-on-spelling',
                'writer output for %r differs from the output for %r beyond '
                'the name: %r vs %r' % (case['spelling'], case['canon'],
                                        data[:160], ref[:160]))

    bad = spec.match_segments(data, spec.ref_segments(spelled))

    if bad is not None:
        return ('bytes-differ-from-reference',
                'section %d: %r' % (bad[0], data[bad[1]:bad[1] + 100]))

    recs, err = sut.read_records(data)

    if err is not None:
        return ('reader-raised:%s' % type(err).__name__,
                '%r after %d records' % (err, len(recs)))

    res = roundtrip.compare_records(spelled, recs)

    if res is not None:
        return 'round-trip-' + res[0], res[1]

    return None


def _rename(data, old, new):
    """Replace the spelled name by the canonical one in header lines only."""
    if old == new:
        return data

    out = []
    recs, err = spec.ref_parse(data)

    if err is not None:
        # fall back to a plain header-line substitution
        return data.replace(b'encoding=' + old + b',', b'encoding=' + new +
                            b',').replace(b'encoding=' + old + b'\n',
                                          b'encoding=' + new + b'\n')

    pos = 0

    for r in recs:
        hs_, cs, ce = r['span']
        out.append(data[pos:hs_])
        header = data[hs_:cs]
        header = header.replace(b'encoding=' + old + b',',
                                b'encoding=' + new + b',')
        header = header.replace(b'encoding=' + old + b'\n',
                                b'encoding=' + new + b'\n')
        out.append(header)
        pos = cs

    out.append(data[pos:])
    return b''.join(out)


def chunks(tier, seed):
    return sorted(spec.catalogue())


def run_chunk(canon, st):
    import collections
    entry = dict(spec.catalogue()[canon], canon=canon)
    counters = collections.Counter()
    evals = 0
    nontrivial = 0
    sample = None

    for spelling in entry['spellings']:
        found = judge_spelling(canon, entry, spelling, counters)
        evals += 1

        if spelling != canon:
            nontrivial += 1

            if sample is None:
                sample = {'canon': canon, 'spelling': spelling,
                          'lf': entry['lf'], 'bom': entry['bom']}

        for kind, detail, case in found:
            st.violation(kind, detail, case)

    counters['spellings'] = evals
    counters['codecs'] = 1

    if entry['bom']:
        counters['bom-emitting-codecs'] = 1
        counters['bom-emitting-spellings'] = evals

    st.bulk(evals, nontrivial, classes=counters, sample=sample)


def run_case(case, st):
    entry = dict(spec.catalogue()[case['canon']], canon=case['canon'])
    st.case(case, nontrivial=case['spelling'] != case['canon'])

    if 'stats_probe' in case:
        res = judge_stats(entry, case['spelling'], case['stats_probe'])

        if res is not None:
            st.violation(res[0], res[1], case)

        return

    if 'helper' in case:
        import collections
        found = judge_spelling(case['canon'], entry, case['spelling'],
                               collections.Counter())

        for kind, detail, c in found:
            if c.get('helper') == case['helper'] and \
                    c.get('kind') == case['kind']:
                st.violation(kind, detail, case)

        return

    res = judge_program(case)

    if res is not None:
        st.violation(res[0], res[1], case)


def checks():
    return [
        EnumCheck(
            'catalogue', chunks, run_chunk, run_case=run_case,
            rule='the whole computed catalogue: every stateless text codec x '
                 'every spelling of its name (aliases, case and hyphen/'
                 'underscore variants, BOM-emitting and -sig variants) x '
                 '{unix, dos, undeclared} x indent {0,3} x 3-5 texts from the '
                 'codec\'s repertoire; helpers return the BOM-free encoded '
                 'newline, writer bytes are identical apart from the spelled '
                 'name and equal the reference serialisation, and reading '
                 'gives back text, metadata and diff; one evaluation = one '
                 'spelling (18 programs + 4 helper calls each); non-trivial '
                 '= spelling differs from the codec\'s canonical name',
            bound={'quick': 'whole catalogue',
                   'thorough': 'whole catalogue'}),
    ]
