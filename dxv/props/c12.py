"""C12 -- unknown header options are carried through and change nothing
else."""

from hypothesis import strategies as hs

from dxv import sut, spec, foreign
from dxv.engine import HypCheck

KNOWN = {'encoding', 'version', 'length', 'indent', 'line_endings',
         'mimetype', 'format', 'type'}

ASSUMPTIONS = [
    'unknown = any key of the KEY grammar other than the eight option names '
    'the specification defines; values from the VALUE grammar; values made '
    'only of digits/_/- that are not plain integers are not generated',
]

KEYS = ['foo', 'x', 'X-Y', 'my-option', 'another_option', 'a1', 'Z', 'pad',
        'section', 'line', 'level', 'options', 'text', 'metadata', 'diff',
        'files', 'meta', 'preamble', 'changes', 'content', 'stats',
        'Encoding', 'LENGTH', 'length2', 'indent-', 'type_', 'formats',
        'subsections', 'diff_type', 'meta_format', 'preamble_indent',
        'max-length', 'xlength', 'content_length', 'my-encoding', 'xindent',
        'pre-format', 'x-type', 'xversion', 'not_line_endings', 'mimetypes',
        'Length', 'ENCODING', 'Indent', 'Version', 'Format', 'Type',
        'Line_Endings', 'MimeType', 'lengthlength', 'length-']
VALUES = ['v', 'value', '/x', '/', 'a/b', 'text/plain', '1.0', '.', '..',
          'utf-8', 'x' * 120, '0', '7', '007', '-5', '100', 'json', 'unix',
          'dos', 'none', 'None', 'true', '1e3', '0x10', '1.5', 'a-b_c.d/e',
          '99999999999999999999', '-0']


# values made only of digits, "_" and "-": int() may or may not take them;
# either rendering is accepted, but they must never make the reader fail
SLIVERS = ['--5', '1_000', '-', '--', '1-', '-1-', '1__0', '_1', '1_', '-_1',
           '0_0', '1-2', '9' * 30, '-' + '9' * 30, '0' * 20]


def key_st():
    harvested = [k for k in sut.identifier_names() if k not in KNOWN]
    return hs.one_of(
        hs.sampled_from(KEYS),
        hs.sampled_from(harvested),
        hs.builds(lambda a, b: a + b, hs.sampled_from('abcXYZ'),
                  hs.text(alphabet='abzAZ09_-', max_size=8)),
    ).filter(lambda k: k not in KNOWN)


def value_st():
    return hs.one_of(
        hs.sampled_from(VALUES),
        hs.sampled_from(SLIVERS),
        hs.text(alphabet='abzAZ059/._-', min_size=1, max_size=10),
    )


@hs.composite
def cases(draw):
    doc = draw(foreign.docs(max_changes=2, max_files=2))
    n = len(doc['sections'])
    targets = draw(hs.lists(hs.integers(0, n - 1), min_size=1,
                            max_size=min(n, 4), unique=True))
    extras = {}

    for t in targets:
        pairs = draw(hs.lists(hs.tuples(hs.integers(0, 12), key_st(),
                                        value_st()),
                              min_size=1, max_size=3,
                              unique_by=lambda p: p[1]))
        extras[str(t)] = [list(p) for p in pairs]

    return {'doc': doc, 'extras': extras}


def run_case(case, st):
    doc = case['doc']
    base = foreign.render(doc)
    ext_doc = dict(doc)
    ext_doc['sections'] = [dict(s) for s in doc['sections']]
    content_hit = False

    for t, pairs in case['extras'].items():
        sec = ext_doc['sections'][int(t)]
        present = {'encoding', 'version', 'length'}
        sec['extra'] = [p for p in pairs]

        if spec.kind_of(sec['id']) != 'container':
            content_hit = True

    ext = foreign.render(ext_doc)
    st.case(case, nontrivial=content_hit,
            classes=['content-header' if content_hit else 'container-only',
                     'headers-%d' % len(case['extras'])])

    r0, e0 = sut.read_records(base.data)
    r1, e1 = sut.read_records(ext.data)

    if e0 is not None:
        st.violation('base-file-rejected:%s' % type(e0).__name__, repr(e0),
                     case)
        return

    if e1 is not None:
        st.violation('extended-file-rejected:%s' % type(e1).__name__,
                     '%r after %d records' % (e1, len(r1)), case)
        return

    if len(r1) != len(r0):
        st.violation('record-count-changed', '%d vs %d' % (len(r1), len(r0)),
                     case)
        return

    # metamorphic relation: only the options grow
    for i, (a, b) in enumerate(zip(r0, r1)):
        added = {}

        for _pos, k, v in case['extras'].get(str(i), ()):
            added[k] = spec.convert_value(v)

        got = b.get('options')
        want = dict(a['options'])
        ok = isinstance(got, dict) and set(got) == set(want) | set(added)

        if ok:
            for k in got:
                alts = added[k] if k in added else (want[k],)

                if not any(type(got[k]) is type(x) and got[k] == x
                           for x in alts):
                    ok = False

        want.update({k: v[0] for k, v in added.items()})

        if not ok:
            st.violation('options-not-carried',
                         'record %d (%s): %r, expected %r'
                         % (i, a['section'], got, want), case)
            return

        ra = {k: v for k, v in a.items() if k != 'options'}
        rb = {k: v for k, v in b.items() if k != 'options'}

        if ra != rb or any(type(ra[k]) is not type(rb[k]) for k in ra):
            st.violation('record-changed',
                         'record %d (%s): %r vs %r'
                         % (i, a['section'], _short(ra), _short(rb)), case)
            return

    # and both equal the specification's reading (where the reading of
    # every added value is decided)
    if any(len(spec.convert_value(v)) > 1
           for pairs in case['extras'].values() for _p, _k, v in pairs):
        return

    res = foreign.compare(r1, ext.records)

    if res is not None:
        st.violation('extended-' + res[0], res[1], case)


def _short(v):
    s = repr(v)
    return s if len(s) < 240 else s[:240] + '...'


PROBE_PROGRAM = {'encoding': 'utf-8', 'calls': [
    ['preamble', {'text': 'main\npreamble'}],
    ['meta', {'metadata': {'k': 1}}],
    ['change', {'encoding': 'latin-1'}],
    ['preamble', {'text': 'change preamble', 'indent': 2}],
    ['meta', {'metadata': {'c': [1]}}],
    ['file', {}],
    ['meta', {'metadata': {'path': 'f'}}],
    ['diff', {'content': b'@@ -1 +1 @@\n-a\n+b\n', 'diff_type': 'text'}],
]}


def sweep_chunks(tier, seed):
    names = [k for k in sut.identifier_names() if k not in KNOWN]
    names += [k for k in KEYS if k not in names]

    # names the logging module reserves on its records
    import logging
    rec = logging.LogRecord('n', 0, 'p', 0, 'm', (), None)
    names += [k for k in sorted(rec.__dict__) + ['message', 'asctime']
              if k not in names and spec.KEY_RE.fullmatch(k.encode('ascii'))]

    # every known name with two neighbouring letters swapped, reversed,
    # and rotated
    for k in sorted(KNOWN):
        variants = [k[::-1], k[1:] + k[:1]]
        variants += [k[:i] + k[i + 1] + k[i] + k[i + 2:]
                     for i in range(len(k) - 1)]

        for v in variants:
            if v not in names and v not in KNOWN and \
                    spec.KEY_RE.fullmatch(v.encode('ascii')):
                names.append(v)

    # the other spelling of every name with a separator in it
    for k in sorted(KNOWN) + list(names):
        for v in (k.replace('_', '-'), k.replace('-', '_'),
                  k.replace('_', ''), k.replace('_', '.')):
            if v not in names and v not in KNOWN and \
                    spec.KEY_RE.fullmatch(v.encode('ascii')):
                names.append(v)

    n = 16
    return [names[i::n] for i in range(n)]


def run_sweep_chunk(names, st):
    data = spec.ref_serialize(PROBE_PROGRAM)
    exp, err = spec.ref_parse(data)
    base, berr = sut.read_records(data)

    if err is not None or berr is not None:
        raise sut.HarnessError('probe file not readable: %r %r' % (err, berr))

    evals = 0
    sample = None

    for name in names:
        for j, rec in enumerate(exp):
            for value in ('1', 'x', '0', 'dos'):
                for first in (False, True):
                    case = {'key': name, 'header': j, 'value': value,
                            'first': first}
                    evals += 1
                    res = judge_probe(data, exp, base, case)

                    if sample is None:
                        sample = case

                    if res is not None:
                        st.violation(res[0], res[1], case)

    # many options on one header
    if names and names[0] == sweep_first_name():
        for j in range(len(exp)):
            for n in (10, 31, 32, 33, 34, 35, 64, 100, 500):
                case = {'many': n, 'header': j}
                evals += 1
                res = judge_many(data, exp, base, case)

                if res is not None:
                    st.violation(res[0], res[1], case)

    st.bulk(evals, evals, sample=sample)


def sweep_first_name():
    names = [k for k in sut.identifier_names() if k not in KNOWN]
    return names[0]


def judge_many(data, exp, base, case):
    j, n = case['header'], case['many']
    hs_, cs, _ce = exp[j]['span']
    header = data[hs_:cs - 1]
    pairs = [('o%d' % i, 'v%d' % i) for i in range(n)]
    text = ', '.join('%s=%s' % p for p in pairs).encode('ascii')
    new = header + (b' ' if header.endswith(b':') else b', ') + text
    blob = data[:hs_] + new + b'\n' + data[cs:]
    recs, err = sut.read_records(blob)

    if err is not None:
        return ('extended-file-rejected:%s' % type(err).__name__,
                '%d options on header %d (%s): %r'
                % (n, j, exp[j]['section'], err))

    want = dict(base[j]['options'])
    want.update(dict(pairs))

    if len(recs) != len(base) or recs[j].get('options') != want:
        return ('options-not-carried',
                '%d options on header %d: got %d keys'
                % (n, j, len(recs[j].get('options', ())) if len(recs) > j
                   else -1))

    return None


def judge_probe(data, exp, base, case):
    j = case['header']
    hs_, cs, _ce = exp[j]['span']
    header = data[hs_:cs - 1]
    pair = ('%s=%s' % (case['key'], case['value'])).encode('ascii')

    if case['first']:
        colon = header.index(b':') + 1
        rest = header[colon:].lstrip(b' ')
        new = header[:colon] + b' ' + pair + (b', ' + rest if rest else b'')
    else:
        new = header + (b' ' if header.endswith(b':') else b', ') + pair

    blob = data[:hs_] + new + b'\n' + data[cs:]
    recs, err = sut.read_records(blob)

    if err is not None:
        return ('extended-file-rejected:%s' % type(err).__name__,
                '%r on header %d (%s): %r' % (pair, j, exp[j]['section'],
                                              err))

    if len(recs) != len(base):
        return 'record-count-changed', '%r on header %d' % (pair, j)

    for i, (a, b) in enumerate(zip(base, recs)):
        want = dict(a['options'])

        if i == j:
            want[case['key']] = spec.convert_value(case['value'])[0]

        if b.get('options') != want:
            return ('options-not-carried',
                    '%r on header %d: record %d options %r, expected %r'
                    % (pair, j, i, b.get('options'), want))

        ra = {k: v for k, v in a.items() if k != 'options'}
        rb = {k: v for k, v in b.items() if k != 'options'}

        if ra != rb or any(type(ra[k]) is not type(rb[k]) for k in ra):
            return ('record-changed',
                    '%r on header %d (%s) changed record %d: %r vs %r'
                    % (pair, j, exp[j]['section'], i, _short(ra),
                       _short(rb)))

    return None


def run_sweep_case(case, st):
    data = spec.ref_serialize(PROBE_PROGRAM)
    exp, _ = spec.ref_parse(data)
    base, _e = sut.read_records(data)
    res = (judge_many if 'many' in case else judge_probe)(data, exp, base,
                                                          case)
    st.case(case, nontrivial=True)

    if res is not None:
        st.violation(res[0], res[1], case)


def checks():
    from dxv.engine import EnumCheck
    return [
        EnumCheck(
            'identifier-sweep', sweep_chunks, run_sweep_chunk,
            run_case=run_sweep_case,
            rule='a fixed file with all nine section kinds x every '
                 'identifier the library itself uses (argument, local and '
                 'attribute names harvested from the reader and object-model '
                 'code objects, ~270) and the curated key list x every '
                 'header x values {1, x, 0} x {first, last} position: an '
                 'unknown option named like something internal must be '
                 'carried through like any other; each case distinct and '
                 'non-trivial',
            bound={'quick': 'all harvested names x 9 headers x 3 values x 2 '
                            'positions', 'thorough': 'same'}),
        HypCheck(
            'unknown-options', cases, run_case,
            budget={'quick': (16, 150), 'thorough': (16, 5000)},
            rule='foreign well-formed files x 1-4 headers x 1-3 unknown '
                 'key=value pairs (keys incl. names of reader fields and '
                 'object-model attributes, values incl. "/"-leading, long, '
                 'integer spellings) x insertion positions 0..12 in the '
                 'option list; reader(extended) must equal reader(original) '
                 'except for the added options; non-trivial = an option was '
                 'added to a content header'),
    ]
