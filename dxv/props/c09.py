"""C09 -- writer enforces section order; rejected calls are atomic;
output is append-only."""

import io
import itertools

from dxv import sut, spec, gen
from dxv.engine import EnumCheck, HypCheck

ASSUMPTIONS = [
    'the specification hierarchy is the state tree of section-format.rst '
    'with its two errata (DESIGN.md 3.1)',
    'a rejected call may raise any Exception subclass (the property says '
    '"raises")',
]

V = [
    ['change', {}],
    ['file', {}],
    ['preamble', {'text': 'p\nq'}],
    ['meta', {'metadata': {'k': 1}}],
    ['diff', {'content': b'-a\n+b\n'}],
]

UNSER = {'$unserialisable': 1}

I = [
    ['preamble', {'text': b'bytes'}],
    ['preamble', {'text': ''}],
    ['preamble', {'text': 'x', 'line_endings': 'mac'}],
    ['preamble', {'text': 'x', 'mimetype': 'text/html'}],
    ['preamble', {'text': 'é', 'encoding': 'ascii'}],
    ['preamble', {'text': 'x', 'encoding': 'no-such-codec'}],
    ['preamble', {'text': 'x', 'encoding': 'rot13', 'indent': 0}],
    ['preamble', {'text': 'x\ny', 'indent': 4.0}],
    ['preamble', {'text': 'x', 'indent': '4'}],
    ['preamble', {'text': 'x', 'indent': 2 ** 64}],
    ['preamble', {'text': 'x', 'indent': float('nan')}],
    ['preamble', {'text': 'x', 'indent': [4]}],
    ['preamble', {'text': 'lone\udc80', 'encoding': 'utf-8'}],
    ['preamble', {'text': '\udcff', 'encoding': 'latin-1', 'indent': 0}],
    ['preamble', {'text': '\ud800', 'encoding': 'utf-16'}],
    ['preamble', {'text': '中', 'encoding': 'cp1252'}],
    ['meta', {'metadata': {'k': 1}, 'encoding': 'rot13'}],
    ['meta', {'metadata': {'k': 1}, 'encoding': 'hex'}],
    ['diff', {'content': b'x\n', 'encoding': 'base64'}],
    ['diff', {'content': b'x\n', 'encoding': 'no-such-codec'}],
    ['diff', {'content': b'x\r\n', 'encoding': 'no-such-codec',
              'line_endings': 'dos'}],
    ['diff', {'content': b'x\n', 'line_endings': 'mac'}],
    ['meta', {'metadata': [1]}],
    ['meta', {'metadata': {}}],
    ['meta', {'metadata': {'k': UNSER}}],
    ['meta', {'metadata': {'k': 1}, 'meta_format': 'yaml'}],
    ['meta', {'metadata': {'k': 1}, 'meta_format': 'js'}],
    ['meta', {'metadata': {'k': 1}, 'meta_format': ''}],
    ['meta', {'metadata': {'k': 1}, 'meta_format': 'JSON'}],
    ['preamble', {'text': 'x', 'line_endings': 'uni'}],
    ['meta', {'metadata': {'k': 1}, 'line_endings': ''}],
    ['meta', {'metadata': {'k': 1}, 'line_endings': 0}],
    ['meta', {'metadata': {'k': 1}, 'line_endings': False}],
    ['meta', {'metadata': {'k': 1}, 'line_endings': 'mac'}],
    ['preamble', {'text': 'x', 'line_endings': ''}],
    ['diff', {'content': b'x\n', 'line_endings': ''}],
    ['preamble', {'text': 'x', 'mimetype': 'text/plain; charset=utf-8'}],
    ['preamble', {'text': 'x', 'mimetype': 'text/markdown;variant=GFM'}],
    ['preamble', {'text': 'x', 'mimetype': ' text/plain'}],
    ['preamble', {'text': 'x', 'mimetype': ''}],
    ['diff', {'content': b'x\n', 'diff_type': 'text;x'}],
    ['diff', {'content': b'x\n', 'diff_type': ''}],
    ['meta', {'metadata': {'k': 1}, 'meta_format': 'json;v=1'}],
    ['preamble', {'text': 'x', 'mimetype': 'text/'}],
    ['diff', {'content': b'x\n', 'diff_type': 'bin'}],
    ['diff', {'content': b'x\n', 'line_endings': 'do'}],
    ['diff', {'content': 'text'}],
    ['diff', {'content': b''}],
    ['diff', {'content': b'x\n', 'diff_type': 'patch'}],
    # the wrong content type stays wrong whatever else is passed with it
    ['diff', {'content': '--- a\n', 'diff_type': 'text',
              'encoding': 'utf-8'}],
    ['diff', {'content': 'x\n', 'encoding': 'utf-8'}],
    ['diff', {'content': 'x\n', 'diff_type': 'text'}],
    ['preamble', {'text': b'bytes', 'encoding': 'utf-8'}],
    ['meta', {'metadata': '{"k": 1}'}],
    # not a dict, or not a JSON object, however mapping-like
    ['meta', {'metadata': {'$kind': 'mixed-keys'}}],
    ['meta', {'metadata': {'$kind': 'proxy'}}],
    ['meta', {'metadata': {'$kind': 'chainmap'}}],
    ['meta', {'metadata': {'$kind': 'userdict'}}],
    ['meta', {'metadata': {'$kind': 'items'}}],
    ['meta', {'metadata': b'{"k": 1}', 'encoding': 'utf-8'}],
]

# valid variants with options, so that V u I sequences also carry encodings
V2 = V + [
    ['change', {'encoding': 'utf-16'}],
    ['file', {'encoding': 'latin-1'}],
    ['preamble', {'text': 'é\r\nx', 'indent': 2, 'mimetype': 'text/plain'}],
    ['meta', {'metadata': {'é': [None, 1.5]}, 'encoding': 'utf-32-le'}],
    ['diff', {'content': b'@@ -1 +1 @@\r\n-a\r\n+b', 'diff_type': 'text',
              'line_endings': 'dos'}],
    # valid or not depending on the encoding in effect where it is written
    ['change', {'encoding': 'latin-1'}],
    ['preamble', {'text': '5 \u20ac'}],
]
# Arguments Python's codec registry resolves but which cannot stand as a
# header value (blank, comma, line break, non-ASCII).  The property does not
# say whether such a call is refused; either way holds as long as a refusal
# is atomic and an accepted call leaves a file the reader reads back with
# one record per accepted call.
Q = [
    ['change', {'encoding': 'utf-8\xe9'}],
    ['file', {'encoding': 'utf 8'}],
    ['preamble', {'text': 'x', 'encoding': 'utf 8'}],
    ['preamble', {'text': 'x', 'encoding': 'utf-8\xe9'}],
    ['meta', {'metadata': {'k': 1}, 'encoding': 'latin 1'}],
    ['change', {'encoding': 'utf-8, x=1'}],
    ['file', {'encoding': 'utf-8\n#...meta: length=2'}],
    ['diff', {'content': b'x\n', 'encoding': 'UTF 8'}],
    ['file', {'encoding': 'utf-8, length=5'}],
    ['change', {'encoding': 'utf-8\n'}],
    ['preamble', {'text': 'x', 'encoding': 'latin-1\n'}],
    # characters that case-fold to ASCII letters
    ['change', {'encoding': 'utf-8\u212a'}],
    ['file', {'encoding': 'lat\u0131n-1'}],
    ['change', {'encoding': 'a\u017fcii'}],
    ['preamble', {'text': 'x', 'encoding': 'iso, ir=100'}],
]
ALL = V2 + I + Q
CORE = V2 + I[::3] + Q[::3]

INVALID_KEYS = set(spec_key for spec_key in range(len(V2), len(V2) + len(I)))


class AppendOnly(io.BytesIO):
    def __init__(self):
        io.BytesIO.__init__(self)
        self.moved = False

    def seek(self, *a):
        self.moved = True
        return io.BytesIO.seek(self, *a)

    def truncate(self, *a):
        self.moved = True
        return io.BytesIO.truncate(self, *a)


def materialize(kw):
    kw = dict(kw)
    md = kw.get('metadata')

    if isinstance(md, dict) and set(md) == {'$kind'}:
        import collections
        import types
        kw['metadata'] = {
            'mixed-keys': {'lines': 3, 1: 'x'},
            'proxy': types.MappingProxyType({'k': 1}),
            'chainmap': collections.ChainMap({'k': 1}, {'j': 2}),
            'userdict': collections.UserDict({'k': 1}),
            'items': [('k', 1)],
        }[md['$kind']]
    elif isinstance(md, dict):
        kw['metadata'] = {k: (object() if v == UNSER else v)
                          for k, v in md.items()}

    return kw


def _same(a, b):
    if isinstance(a, float) and isinstance(b, float):
        return a == b or (a != a and b != b)

    if type(a) is not type(b):
        return False

    if isinstance(a, dict):
        return set(a) == set(b) and all(_same(a[k], b[k]) for k in a)

    if isinstance(a, list):
        return len(a) == len(b) and all(_same(x, y) for x, y in zip(a, b))

    return a == b


def is_invalid(call):
    return any(_same(list(call), list(i)) for i in I) or \
        any(_same(list(call), list(i)) for i in globals().get('I_EXT', ()))


def unencodable_here(op, kw, w):
    """Text that the encoding in effect (own, else inherited) cannot
    represent: an invalid call *in this place*."""
    if op != 'preamble' or not isinstance(kw.get('text'), str):
        return False

    eff = kw.get('encoding') or w.enc[-1]

    try:
        kw['text'].encode(eff)
    except UnicodeError:
        return True
    except LookupError:
        return False

    return False


# every invalid call once more with each valid optional argument it did not
# have yet: what is wrong stays wrong whatever else is passed with it
VALID_EXTRAS = {
    'preamble': [('indent', 0), ('indent', 7), ('line_endings', 'dos'),
                 ('mimetype', 'text/markdown'), ('encoding', 'utf-8'),
                 ('encoding', 'utf-16')],
    'meta': [('meta_format', 'json'), ('encoding', 'utf-8'),
             ('line_endings', 'unix')],
    'diff': [('diff_type', 'binary'), ('diff_type', 'text'),
             ('line_endings', 'dos'), ('line_endings', 'unix'),
             ('encoding', 'utf-8')],
}
I_EXT = []

for _op, _kw in I:
    for _k, _v in VALID_EXTRAS.get(_op, ()):
        if _k not in _kw:
            _call = [_op, dict(_kw, **{_k: _v})]

            if not any(_same(_call, x) for x in V2) and \
                    not (_op == 'preamble' and _k == 'encoding' and
                         _kw.get('text') in ('\xe9', '\u4e2d')):
                I_EXT.append(_call)

WIDE = V2 + I + I_EXT + Q


def is_questionable(call):
    return any(_same(list(call), list(q)) for q in Q)


def judge(calls, main='utf-8'):
    """Return (None | (kind, detail), n_accepted, n_rejected,
    rejection_then_acceptance)."""
    ns = sut.load()
    stream = AppendOnly()
    writer = ns.DiffXWriter(stream, encoding=main)
    w = spec.Walker(main)
    accepted = []
    nrej = 0
    rej_then_acc = False
    questionable_accepted = False
    want_ids = []

    for idx, (op, kw) in enumerate(calls):
        legal = w.accepts(op) and not is_invalid([op, kw]) and \
            not unencodable_here(op, kw, w)
        before = stream.getvalue()
        raised = None

        try:
            gen.call_writer(writer, op, materialize(kw))
        except Exception as e:
            raised = e

        after = stream.getvalue()
        where = 'call %d %s%r after %r' % (idx, op, sorted(kw), w.prev)

        if legal and is_questionable([op, kw]):
            if raised is not None:
                if after != before:
                    return (('rejected-call-wrote-bytes',
                             '%s wrote %r' % (where,
                                              after[len(before):][:80])),
                            len(accepted), nrej, rej_then_acc)

                nrej += 1
                continue

            if not (after.startswith(before) and len(after) > len(before)):
                return (('not-append-only', where), len(accepted), nrej,
                        rej_then_acc)

            want_ids.append(w.section_id(op))
            w.advance(op, kw)
            accepted.append([op, kw])
            questionable_accepted = True
            continue

        if legal and raised is not None and questionable_accepted:
            # what an accepted unwritable codec name means for the calls
            # that inherit it is not the property's business; a refusal
            # must still be atomic
            if after != before:
                return (('rejected-call-wrote-bytes',
                         '%s wrote %r' % (where, after[len(before):][:80])),
                        len(accepted), nrej, rej_then_acc)

            nrej += 1
            continue

        if legal:
            if raised is not None:
                return (('rejected-legal-call',
                         '%s raised %r' % (where, raised)),
                        len(accepted), nrej, rej_then_acc)

            if not (after.startswith(before) and len(after) > len(before)):
                return (('not-append-only', where), len(accepted), nrej,
                        rej_then_acc)

            want_ids.append(w.section_id(op))
            w.advance(op, kw)
            accepted.append([op, kw])

            if nrej:
                rej_then_acc = True
        else:
            if raised is None:
                return (('accepted-illegal-call', where), len(accepted),
                        nrej, rej_then_acc)

            if after != before:
                return (('rejected-call-wrote-bytes',
                         '%s wrote %r' % (where, after[len(before):][:80])),
                        len(accepted), nrej, rej_then_acc)

            nrej += 1

    if stream.moved:
        return (('stream-repositioned', 'seek/truncate used'),
                len(accepted), nrej, rej_then_acc)

    data = stream.getvalue()

    if questionable_accepted:
        # no reference bytes for a name the header grammar cannot carry:
        # the file must at least read back section for section
        recs, err = sut.read_records(data)
        ids = [r.get('section') for r in recs]
        want = (['diffx'] + [sid for sid, _ in zip(want_ids, accepted)]
                if _closed(w) else None)

        if want is not None and err is None and ids == want:
            # the header must say what the call said, and nothing else
            for rec, (o, k) in zip(recs[1:], accepted):
                if not is_questionable([o, k]):
                    continue

                opts = dict(rec.get('options') or {})
                extra = set(opts) - {'encoding', 'length', 'indent',
                                     'line_endings', 'format', 'mimetype',
                                     'type'}

                if opts.get('encoding') != k['encoding'] or extra:
                    return (('accepted-call-wrote-other-options',
                             '%s(encoding=%r) reads back as %r'
                             % (o, k['encoding'], opts)),
                            len(accepted), nrej, rej_then_acc)

        if err is not None and want is not None or \
                (want is not None and ids != want):
            return (('accepted-call-left-unreadable-file',
                     'accepted %r; reader gave %r, %r'
                     % ([(o, k.get('encoding')) for o, k in accepted
                         if is_questionable([o, k])], ids[-4:], err)),
                    len(accepted), nrej, rej_then_acc)

        return None, len(accepted), nrej, rej_then_acc

    try:
        segs = spec.ref_segments({'encoding': main, 'calls': accepted})
    except spec.Unencodable:
        return None, len(accepted), nrej, rej_then_acc

    bad = spec.match_segments(data, segs)

    if bad is not None:
        return (('bytes-differ-from-accepted-calls-only',
                 'segment %d offset %d: got %r' %
                 (bad[0], bad[1], data[bad[1]:bad[1] + 80])),
                len(accepted), nrej, rej_then_acc)

    return None, len(accepted), nrej, rej_then_acc


def _closed(w):
    """The accepted calls so far form a file the reader must accept
    (every file has its metadata)."""
    return w.prev not in ('..file',)


def run_case(case, st):
    calls = case['calls']
    res, nacc, nrej, rta = judge(calls, case.get('encoding', 'utf-8'))
    st.case(case, nontrivial=rta,
            classes=['len-%s' % (len(calls) if len(calls) < 10 else '10+'),
                     'rejections-%s' % (nrej if nrej < 3 else '3+'),
                     'rejection-then-acceptance' if rta else 'plain'])

    if res is not None:
        st.violation(res[0], res[1], case)


# -- exhaustive ---------------------------------------------------------

BOUNDS = {'quick': (8, 3), 'thorough': (10, 4)}


def chunks(tier, seed):
    lv, la = BOUNDS[tier]
    out = [('V', (), 2)]

    for a in range(len(V)):
        for b in range(len(V)):
            out.append(('V', (a, b), lv))

    out.append(('A', (), 2))

    for a in range(len(ALL)):
        for b in range(len(ALL)):
            out.append(('A', (a, b), 3))

    # all pairs over the wide alphabet (every invalid call x every valid
    # extra argument)
    out.append(('W', (), 2))

    for a in range(len(WIDE)):
        out.append(('W', (a,), 2))

    # every entry of the wide alphabet in every place where its operation
    # is in order, followed by each valid call
    for a in range(0, len(WIDE), 8):
        out.append(('X', (a,), 8))

    if la > 3:
        # one step deeper over the valid variants and every third
        # invalid / unwritable one
        for a in range(len(CORE)):
            for b in range(len(CORE)):
                out.append(('C', (a, b), la))

    return out


CONTEXTS = {
    'change': [[]],
    'file': [[['change', {}]]],
    'preamble': [[], [['change', {}]], [['change', {'encoding': 'utf-16'}]]],
    'meta': [[], [['change', {}]], [['change', {}], ['file', {}]],
             [['change', {}], ['preamble', {'text': 'p'}]]],
    'diff': [[['change', {}], ['file', {}], ['meta', {'metadata': {'k': 1}}]],
             [['change', {}], ['file', {'encoding': 'latin-1'}],
              ['meta', {'metadata': {'k': 1}}]]],
}


def run_context_chunk(chunk, st):
    _which, (start,), count = chunk
    evals = nontrivial = 0
    sample = None

    for w in WIDE[start:start + count]:
        for prefix in CONTEXTS[w[0]]:
            for cont in V2:
                calls = prefix + [w] + [cont]
                res, nacc, nrej, rta = judge(calls)
                evals += 1
                nontrivial += bool(rta)

                if sample is None and rta:
                    sample = {'calls': calls}

                if res is not None:
                    st.violation(res[0], res[1], {'calls': calls})

    st.bulk(evals, nontrivial, sample=sample)


def run_chunk(chunk, st):
    which, head, maxlen = chunk

    if which == 'X':
        return run_context_chunk(chunk, st)
    alphabet = {'V': V, 'A': ALL, 'C': CORE, 'W': WIDE}[which]
    evals = 0
    nontrivial = 0
    sample = None

    if not head:
        lengths = range(0, maxlen)       # sequences of length 0..1
    else:
        lengths = range(0, maxlen - len(head) + 1)

    for n in lengths:
        for tail in itertools.product(range(len(alphabet)), repeat=n):
            idxs = head + tail
            calls = [alphabet[i] for i in idxs]
            res, nacc, nrej, rta = judge(calls)
            evals += 1

            if rta:
                nontrivial += 1

                if sample is None and len(idxs) >= 4:
                    sample = {'alphabet': which, 'indices': list(idxs),
                              'calls': calls}

            if res is not None:
                st.violation(res[0], res[1], {'calls': calls})

    st.bulk(evals, nontrivial, sample=sample)


# -- random longer sequences ------------------------------------------------

def strategy():
    from hypothesis import strategies as hs

    @hs.composite
    def case(draw):
        main = draw(hs.sampled_from(['utf-8', 'utf-8', 'latin-1', 'utf-16']))
        w = spec.Walker(main)
        n = draw(hs.integers(1, 40))
        calls = []

        for _ in range(n):
            r = draw(hs.integers(0, 9))

            if r < 2:
                call = draw(hs.sampled_from(I + I_EXT + Q))
            else:
                # bias towards legal continuations, keep some illegal ones
                ops = ['change', 'file', 'preamble', 'meta', 'diff']
                legal = [o for o in ops if w.accepts(o)]
                op = draw(hs.sampled_from(legal if r < 8 and legal else ops))

                if op in ('change', 'file'):
                    kw = {}
                    e = draw(gen.enc_choice)

                    if e != gen.ABSENT:
                        kw['encoding'] = e
                elif op == 'preamble':
                    kw = draw(gen.preamble_kwargs(w.enc[-1]))
                elif op == 'meta':
                    kw = draw(gen.meta_kwargs(w.enc[-1]))
                else:
                    kw = draw(gen.diff_kwargs())

                call = [op, kw]

            calls.append(call)

            if w.accepts(call[0]) and not is_invalid(call) and \
                    not is_questionable(call) and \
                    not unencodable_here(call[0], call[1], w):
                w.advance(call[0], call[1])

        return {'encoding': main, 'calls': calls}

    return case()


def ctor_chunks(tier, seed):
    return ['constructor']


def run_ctor_chunk(_chunk, st):
    """The writer's own constructor: an unsupported version is refused
    without a byte written; the defaults are the documented ones."""
    ns = sut.load()
    evals = 0

    for version in ('2.0', '1', '', 'v1.0', '1.0 ', '0.9', '1.00', '10'):
        stream = AppendOnly()
        evals += 1

        try:
            ns.DiffXWriter(stream, version=version)
        except Exception:
            if stream.getvalue():
                st.violation('rejected-constructor-wrote-bytes',
                             'version=%r wrote %r' % (version,
                                                      stream.getvalue()),
                             {'version': version})

            continue

        st.violation('unsupported-version-accepted',
                     'DiffXWriter(version=%r) accepted' % (version,),
                     {'version': version})

    for enc in ('utf-8\xe9', 'utf 8', 'utf-8, x=1', 'utf-8\n#.change:'):
        stream = AppendOnly()
        evals += 1

        try:
            w = ns.DiffXWriter(stream, encoding=enc)
        except Exception:
            if stream.getvalue():
                st.violation('rejected-constructor-wrote-bytes',
                             'encoding=%r wrote %r' % (enc, stream.getvalue()),
                             {'encoding': enc})

            continue

        try:
            w.new_change()
            w.new_file()
            w.write_meta({'k': 1})
        except Exception:
            continue

        recs, err = sut.read_records(stream.getvalue())

        if err is not None or [r.get('section') for r in recs] != \
                ['diffx', '.change', '..file', '...meta']:
            st.violation('accepted-constructor-left-unreadable-file',
                         'DiffXWriter(encoding=%r): %r / %r'
                         % (enc, stream.getvalue()[:80], err),
                         {'encoding': enc})

    for kwargs, enc in (({}, 'utf-8'), ({'version': '1.0'}, 'utf-8'),
                        ({'encoding': 'latin-1'}, 'latin-1'),
                        ({'encoding': 'utf-16', 'version': '1.0'}, 'utf-16')):
        stream = AppendOnly()
        evals += 1
        w = ns.DiffXWriter(stream, **kwargs)
        w.new_change()
        w.write_preamble('é')
        want = spec.ref_serialize({'encoding': enc, 'calls': [
            ['change', {}], ['preamble', {'text': 'é'}]]})

        if stream.getvalue() != want:
            st.violation('constructor-defaults-differ',
                         'DiffXWriter(**%r): %r, expected %r'
                         % (kwargs, stream.getvalue(), want),
                         {'kwargs': kwargs})

    st.bulk(evals, evals, sample={'constructor': 'version / encoding'})


def checks():
    return [
        EnumCheck(
            'exhaustive', chunks, run_chunk, run_case=run_case,
            rule='all call sequences over the 5 operations with valid '
                 'arguments up to length LV, and all sequences over 12 valid '
                 '+ 60 invalid-argument variants (wrong types, empty content, '
                 'bad option values, unencodable text incl. lone surrogates, '
                 'unknown and non-text codecs) + 13 codec names that cannot '
                 'stand as a header value (refused atomically, or accepted '
                 'and readable) up to length LA; per step: '
                 'accepted iff the section may follow (my table) and the '
                 'arguments are valid, rejected calls leave the stream '
                 'byte-identical, accepted ones append; at the end bytes == '
                 'reference serialisation of the accepted calls only; '
                 'non-trivial = a rejection followed by an acceptance',
            bound={'quick': 'LV = 8, LA = 3',
                   'thorough': 'LV = 10, LA = 3, and length 4 over the '
                               'valid variants plus every third invalid '
                               'one'}),
        EnumCheck(
            'constructor', ctor_chunks, run_ctor_chunk,
            rule='DiffXWriter(): 8 unsupported version values must be '
                 'refused with nothing written, 4 unwritable encoding names '
                 'refused atomically or readable; default and explicit '
                 'version / encoding arguments give the documented header '
                 'and encoding; all non-trivial',
            bound={'quick': '16 constructor calls', 'thorough': 'same'}),
        HypCheck(
            'random', strategy, run_case,
            budget={'quick': (8, 120), 'thorough': (16, 6000)},
            rule='Hypothesis sequences up to length 40 with generated '
                 'arguments (codecs, indents, line endings, texts) and '
                 'invalid-argument variants mixed in; same oracle; '
                 'non-trivial = a rejection followed by an acceptance'),
    ]
