"""C16 -- line splitting is lossless and consistent between its two modes."""

import itertools

from dxv import sut, spec
from dxv.engine import EnumCheck, HypCheck

ALPHABET = (b'\r', b'\n', b'\x00', b' ', b'a')

NEWLINES = []

for _enc in (None, 'utf-16-le', 'utf-16-be', 'utf-32-le', 'utf-32-be'):
    for _kind in ('unix', 'dos'):
        NEWLINES.append(spec.nl_bytes(_kind, _enc))

# EBCDIC code pages: LF is 0x25 ('%' in ASCII), CRLF is 0x0D 0x25
EBCDIC_NEWLINES = [spec.nl_bytes('unix', 'cp037'), spec.nl_bytes('dos',
                                                                'cp037')]
EBCDIC_ALPHABET = (b'\r', b'%', b'\x00', b' ', b'a')

ASSUMPTIONS = [
    'the newline sequences the library uses are LF / CRLF in ASCII, in '
    'UTF-16/32 LE/BE and in the EBCDIC code pages (0x25, 0x0D 0x25); none '
    'of them overlaps itself, so "number of newline occurrences" is '
    'unambiguous',
]


def judge(data, nl):
    """Return None or (kind, detail)."""
    ns = sut.load()
    split = ns.text.split_lines
    keep = split(data, nl, keep_ends=True)
    bare = split(data, nl, keep_ends=False)
    bare2 = split(data, nl)

    returned_lists = isinstance(keep, list) and isinstance(bare, list)

    try:
        keep_orig, bare_orig = keep, bare
        keep, bare, bare2 = list(keep), list(bare), list(bare2)
    except TypeError:
        return 'not-a-sequence', 'result types %r %r' % (type(keep),
                                                         type(bare))

    if b''.join(keep) != data:
        return 'lossy-join', 'join(keep_ends) = %r' % (b''.join(keep),)

    n = data.count(nl)
    terminated = data.endswith(nl)
    want = n + (0 if terminated else 1)

    if len(keep) != want:
        return 'line-count', '%d lines, expected %d' % (len(keep), want)

    for i, ln in enumerate(keep):
        last = i == len(keep) - 1

        if last and not terminated:
            if nl in ln:
                return 'newline-inside-line', 'last line %r' % (ln,)
        else:
            if not ln.endswith(nl) or ln.find(nl) != len(ln) - len(nl):
                return 'newline-inside-line', 'line %d = %r' % (i, ln)

    if len(bare) != len(keep):
        return 'modes-disagree', 'counts %d vs %d' % (len(bare), len(keep))

    for i, (k, b) in enumerate(zip(keep, bare)):
        exp = k[:-len(nl)] if k.endswith(nl) else k

        if b != exp:
            return 'modes-disagree', 'line %d: %r vs %r' % (i, b, k)

    if bare2 != bare:
        return 'default-mode', 'default keep_ends differs from False'

    if keep != spec.split_keep(data, nl):
        return 'differs-from-reference', 'reference split differs'

    # the result belongs to the caller: scribbling over it must not change
    # what a later call with the same arguments returns
    if returned_lists:
        want_keep, want_bare = list(keep), list(bare)
        keep_orig[:] = [b'scribble'] * (len(keep) + 1)
        bare_orig[:] = [b'scribble']

        if list(split(data, nl, keep_ends=True)) != want_keep or \
                list(split(data, nl, keep_ends=False)) != want_bare:
            return ('result-shared-between-calls',
                    'mutating a returned list changed a later result')

    return None


def run_case(case, st):
    data, nl = case
    res = judge(data, nl)
    n = data.count(nl)
    st.case(case, nontrivial=n >= 1 and len(data) > len(nl),
            classes=['nl-len-%d' % len(nl),
                     'occurrences-%s' % (n if n < 3 else '3+'),
                     'terminated' if data.endswith(nl) else 'unterminated'])

    if res is not None:
        st.violation(res[0], '%s; data=%r newline=%r' % (res[1], data, nl),
                     case)


# -- exhaustive ---------------------------------------------------------

MAXLEN = {'quick': 7, 'thorough': 9}


def chunks(tier, seed):
    out = [('short', 'cold'), ('short', 'warm'), ('ebcdic', 'cold'),
           ('ebcdic', 'warm')]

    for a in range(len(ALPHABET)):
        for b in range(len(ALPHABET)):
            # every chunk once in a process that has done nothing else with
            # the library, once after other library calls
            out.append(('prefix', a, b, MAXLEN[tier],
                        'warm' if (a + b) % 2 else 'cold'))

    return out


def warm_up():
    """Other library calls a process may have made before it splits lines:
    newline helpers for every codec family, a parse and a statistics run
    over UTF-16 content."""
    ns = sut.load()

    for enc in (None, 'ascii', 'utf-8', 'utf-16', 'utf-16-le', 'utf-16-be',
                'utf-32', 'utf-32-le', 'utf-32-be', 'cp037', 'latin-1'):
        for kind in ('unix', 'dos'):
            try:
                ns.text.get_newline_for_type(kind, enc)
                sample = ('a' + spec.nl_str(kind) + 'b').encode(enc or
                                                                'ascii')
                ns.text.guess_line_endings(sample, encoding=enc)
                ns.text.guess_line_endings('a' + spec.nl_str(kind) + 'b')
            except Exception:
                pass

    prog = {'encoding': 'utf-16', 'calls': [
        ['preamble', {'text': 'p\r\nq'}], ['change', {}], ['file', {}],
        ['meta', {'metadata': {'k': 1}}],
        ['diff', {'content': '@@ -1 +1 @@\n-a\n+b\n'.encode('utf-16-le'),
                  'encoding': 'utf-16-le'}]]}

    try:
        tree = ns.DiffX.from_bytes(spec.ref_serialize(prog))
        tree.generate_stats()
        tree.to_bytes()
    except Exception:
        pass


def run_chunk(chunk, st):
    from dxv import engine
    engine.run_isolated(_run_chunk_here, list(chunk), st)
    # counters travel back through classes
    evals = st.classes.pop('$evals', 0)
    nontrivial = st.classes.pop('$nontrivial', 0)
    st.bulk(evals, nontrivial,
            sample={'chunk': list(chunk)} if chunk[0] != 'short' else None)


def _run_chunk_here(chunk, st):
    chunk = tuple(chunk)

    if chunk[-1] == 'warm':
        warm_up()

    chunk = chunk[:-1]

    if chunk[0] == 'ebcdic':
        evals = nontrivial = 0

        for n in range(1, 7):
            for t in itertools.product(EBCDIC_ALPHABET, repeat=n):
                data = b''.join(t)

                for nl in EBCDIC_NEWLINES:
                    evals += 1
                    nontrivial += nl in data and len(data) > len(nl)
                    res = judge(data, nl)

                    if res is not None:
                        st.violation(res[0], '%s; data=%r newline=%r'
                                     % (res[1], data, nl), [data, nl])

        st.classes['$evals'] += evals
        st.classes['$nontrivial'] += nontrivial
        return

    if chunk[0] == 'short':
        strings = list(ALPHABET)
    else:
        _, a, b, maxlen = chunk
        head = ALPHABET[a] + ALPHABET[b]
        strings = (head + b''.join(t)
                   for n in range(0, maxlen - 1)
                   for t in itertools.product(ALPHABET, repeat=n))

    evals = 0
    nontrivial = 0
    sample = None

    for data in strings:
        for nl in NEWLINES:
            evals += 1

            if nl in data and len(data) > len(nl):
                nontrivial += 1

                if sample is None and len(data) >= 5:
                    sample = [data, nl]

            res = judge(data, nl)

            if res is not None:
                st.violation(res[0], '%s; data=%r newline=%r'
                             % (res[1], data, nl), [data, nl])

    st.classes['$evals'] += evals
    st.classes['$nontrivial'] += nontrivial


# -- block boundaries -----------------------------------------------------

BLOCKS = (96, 1024, 4096, 8192, 65536, 131072, 1048576)


LINE_COUNTS = (255, 256, 257, 258, 259, 999, 1000, 1001, 1023, 1024, 1025,
               4096, 4097, 9999, 10000, 10001, 20000, 30000, 32768, 50000,
               65535, 65536, 65537, 100000, 131072)


def boundary_chunks(tier, seed):
    return [('block', b) for b in BLOCKS] + [('lines', n)
                                             for n in LINE_COUNTS] + \
        [('lines', 'full-range')]


def run_full_range_chunk(st):
    """Binary payloads in which every byte value occurs."""
    evals = 0
    every = bytes(range(256))

    for nl in NEWLINES + EBCDIC_NEWLINES:
        for data in (every, every + nl, every[::-1] + nl + every,
                     (every + nl) * 3, nl + every * 2,
                     every[:128] + nl + every[128:] + nl):
            res = judge(data, nl)
            evals += 1

            if res is not None:
                st.violation(res[0], res[1][:300],
                             {'full_range': data, 'newline': nl})

    st.bulk(evals, evals, sample={'full_range': '256 byte values',
                                  'payloads': 6})


def run_line_count_chunk(n, st):
    if n == 'full-range':
        return run_full_range_chunk(st)

    evals = 0

    for nl in NEWLINES + EBCDIC_NEWLINES:
        for unit in (b'a', b''):
            ctrl_z = nl[:len(nl) // 2].replace(b'\r', b'\x1a') \
                if len(nl) > 1 else b'\x1a'

            for tail in (b'', b'tail', b'\r', nl[:-1] or b'x', b'\x1a',
                         ctrl_z or b'\x1a'):
                data = (unit + nl) * n + tail

                if not data:
                    continue

                evals += 1
                res = judge(data, nl)

                if res is not None:
                    st.violation(res[0], '%s; %d lines, newline %r, tail %r'
                                 % (res[1][:160], n, nl, tail),
                                 {'lines': n, 'newline': nl, 'unit': unit,
                                  'tail': tail})

    st.bulk(evals, evals, sample={'lines': n})


def run_boundary_chunk(chunk, st):
    if chunk[0] == 'lines':
        return run_line_count_chunk(chunk[1], st)

    """A newline straddling every offset around a power-of-two block
    boundary, in data larger than the block."""
    _, block = chunk
    evals = 0
    sample = None

    for nl in NEWLINES + EBCDIC_NEWLINES:
        for k in ((1,) if block >= 1048576 else (1, 2)):
            for off in range(-len(nl) - 1, 2):
                pos = k * block + off

                for tail in (b'tail', b'', nl, b'x' + nl):
                    data = b'a' * pos + nl + tail
                    # and one more newline early, so there are >= 2 lines
                    data2 = b'q' + nl + data[len(nl) + 1:] \
                        if pos > len(nl) + 1 else data

                    for d in (data, data2):
                        evals += 1
                        res = judge(d, nl)

                        if sample is None:
                            sample = {'block': block, 'newline': nl,
                                      'newline_offset': pos,
                                      'length': len(d)}

                        if res is not None:
                            st.violation(res[0], '%s; %d bytes, newline %r '
                                         'at offset %d (block %d)'
                                         % (res[1][:200], len(d), nl, pos,
                                            block),
                                         {'boundary': [block, k, off],
                                          'newline': nl, 'tail': tail,
                                          'variant': 0 if d is data else 1})

    st.bulk(evals, evals, sample=sample)


def run_boundary_case(case, st):
    if 'full_range' in case:
        return run_case([case['full_range'], case['newline']], st)

    if 'lines' in case:
        data = (case['unit'] + case['newline']) * case['lines'] + case['tail']
        return run_case([data, case['newline']], st)

    block, k, off = case['boundary']
    nl = case['newline']
    pos = k * block + off
    data = b'a' * pos + nl + case['tail']

    if case.get('variant') and pos > len(nl) + 1:
        data = b'q' + nl + data[len(nl) + 1:]

    run_case([data, nl], st)


# -- random longer strings ---------------------------------------------

def strategy():
    from hypothesis import strategies as st

    @st.composite
    def case(draw):
        nl = draw(st.sampled_from(NEWLINES + EBCDIC_NEWLINES))
        pieces = [nl, nl, nl[:-1], nl[1:], b'\r', b'\n', b'\x00', b' ',
                  b'a', b'\r\n', b'\r\r\n', b'\n\r', nl + nl]
        toks = draw(st.lists(
            st.one_of(st.sampled_from(pieces),
                      st.binary(min_size=1, max_size=12)),
            min_size=1, max_size=draw(st.sampled_from([4, 12, 60, 400]))))
        return [b''.join(toks) or b'a', nl]

    return case()


def _checks():
    return [
        EnumCheck(
            'exhaustive', chunks, run_chunk, run_case=run_case,
            rule='every byte string over {CR,LF,NUL,SP,a} of length 1..L x '
                 'the 10 newline sequences (LF, CRLF and their UTF-16/32 '
                 'LE/BE encodings); non-trivial = the string contains the '
                 'newline and is longer than it; enumerated, hence distinct; '
                 'each chunk runs in a freshly forked process, half of them '
                 'after other library calls (newline helpers for every codec '
                 'family, a UTF-16 parse, statistics and serialisation)',
            bound={'quick': 'L = 7', 'thorough': 'L = 9'}),
        EnumCheck(
            'block-boundaries', boundary_chunks, run_boundary_chunk,
            run_case=run_boundary_case,
            rule='data larger than a block with a newline placed at every '
                 'offset around k x block (block in 96, 1 KiB, 4 KiB, 8 KiB, '
                 '64 KiB, 128 KiB, 1 MiB; k = 1, 2) for all 10 newline sequences '
                 'and 4 tails; and data with exactly 255..259, 1023..1025, '
                 '4096, 4097, 65535..65537 lines (terminated or not); every '
                 'case has >= 1 newline (non-trivial)',
            bound={'quick': '6 block sizes x 2 multiples x all straddling '
                            'offsets', 'thorough': 'same'}),
        HypCheck(
            'random', strategy, run_case,
            budget={'quick': (8, 400), 'thorough': (16, 20000)},
            rule='token-built byte strings up to ~4 KB (newline, its '
                 'truncations, CR, LF, NUL, random bytes) x 10 newlines; '
                 'non-trivial = contains the newline and is longer than it'),
        EnumCheck(
            'growing-payload', growing_chunks, run_growing_chunk,
            run_case=run_growing_case,
            rule='every string over the alphabet up to length LG split, then '
                 'the same string extended by one of five tails split again '
                 'with the same newline and mode (10 + 2 newlines, both '
                 'modes): the second result equals the reference split of '
                 'the second string; non-trivial = the first string '
                 'contains the newline',
            bound={'quick': 'LG = 5', 'thorough': 'LG = 6'}),
        EnumCheck(
            'interpreter-flags', flag_chunks, run_flag_chunk,
            run_case=run_flag_case,
            rule='10 strings x 10 newlines x both modes split in this '
                 'interpreter and in children started with python -O and '
                 'python -bb (and with DEBUG logging on), in a second '
                 'thread of this process, and again after five library '
                 'calls that fail: identical results; every comparison is '
                 'non-trivial',
            bound={'quick': '200 results, three interpreters',
                   'thorough': 'same'}),
    ]


def growing_chunks(tier, seed):
    n = 5 if tier == 'quick' else 6
    out = []

    for nl in NEWLINES + EBCDIC_NEWLINES:
        for first in range(5):
            out.append((nl, first, n))

    return out


def run_growing_chunk(chunk, st):
    """A payload that grows between two calls (a diff being appended to and
    analysed again): the second result is that of the second payload."""
    import itertools
    nl, first, maxlen = chunk
    ns = sut.load()
    split = ns.text.split_lines
    alphabet = EBCDIC_ALPHABET if nl in EBCDIC_NEWLINES else ALPHABET
    evals = nontrivial = 0
    sample = None
    tails = (nl + b'q', b'q' + nl, b'q', nl, nl[:1] or b'\n',
             nl + b'\x1a', nl + (nl[:len(nl) // 2].replace(b'\r', b'\x1a')
                                  or b'\x1a'))

    for n in range(0, maxlen):
        for rest in itertools.product(alphabet, repeat=n):
            data = alphabet[first] + b''.join(rest)

            for keep in (False, True):
                for tail in tails:
                    grown = data + tail
                    split(data, nl, keep)
                    got = split(grown, nl, keep)
                    parts = spec.split_keep(grown, nl)
                    want = parts if keep else [
                        p[:-len(nl)] if p.endswith(nl) else p for p in parts]
                    evals += 1

                    if nl in data:
                        nontrivial += 1

                    if list(got) != want:
                        st.violation(
                            'result-depends-on-the-previous-call',
                            'split(%r) then split(%r) (newline %r, '
                            'keep_ends=%r) gave %r, expected %r'
                            % (data, grown, nl, keep, got, want),
                            {'data': data, 'tail': tail, 'newline': nl,
                             'keep_ends': keep})
                        break
                    elif sample is None and nl in data:
                        sample = {'data': data, 'tail': tail, 'newline': nl}

    st.bulk(evals, nontrivial, sample=sample)


def run_growing_case(case, st):
    ns = sut.load()
    split = ns.text.split_lines
    nl, keep = case['newline'], case['keep_ends']
    grown = case['data'] + case['tail']
    split(case['data'], nl, keep)
    got = split(grown, nl, keep)
    parts = spec.split_keep(grown, nl)
    want = parts if keep else [p[:-len(nl)] if p.endswith(nl) else p
                               for p in parts]
    st.case(case, nontrivial=True)

    if list(got) != want:
        st.violation('result-depends-on-the-previous-call',
                     '%r, expected %r' % (got, want), case)


def flag_chunks(tier, seed):
    return ['python -O / -bb']


def run_flag_chunk(_chunk, st):
    from dxv import ocheck
    n = ocheck.compare(st, ('split',), sut.HarnessError)
    n += ocheck.in_process_variants(st, ('split',))
    st.bulk(n, n, sample={'results-compared': n})


def run_flag_case(case, st):
    run_flag_chunk(None, st)
    st.case(case, nontrivial=True)


def checks():
    out = _checks()

    for c in out:
        if c.name in ['exhaustive']:
            c.isolated = True

    return out
