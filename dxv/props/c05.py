"""C05 -- object model written then parsed gives back the same tree."""

from dxv import sut, spec, trees
from dxv.engine import HypCheck

ASSUMPTIONS = [
    'whether a tree should serialise is decided by the model (well-ordered '
    'by the section table, texts encodable), never by the implementation '
    'raising; a tree the model rejects must make to_bytes raise',
    'documented normalisation only: final line ending appended to '
    'text/diff, detected line_endings recorded, default preamble indent 4 '
    'and metadata format json recorded, empty content sections come back in '
    'their default state',
    'the root section\'s section_id attribute is not judged',
]


def check_hooks(ns, diffx, data):
    import io

    class MyDiffX(ns.DiffX):
        __slots__ = ()

    class MyReader(ns.DiffXReader):
        pass

    class MyWriter(ns.DiffXWriter):
        # a subclass that forwards everything, as a logging or filtering
        # writer would
        def new_change(self, *args, **kwargs):
            return ns.DiffXWriter.new_change(self, *args, **kwargs)

        def new_file(self, *args, **kwargs):
            return ns.DiffXWriter.new_file(self, *args, **kwargs)

        def write_preamble(self, *args, **kwargs):
            return ns.DiffXWriter.write_preamble(self, *args, **kwargs)

        def write_meta(self, *args, **kwargs):
            return ns.DiffXWriter.write_meta(self, *args, **kwargs)

        def write_diff(self, *args, **kwargs):
            return ns.DiffXWriter.write_diff(self, *args, **kwargs)

    class MyDOMReader(ns.DiffXDOMReader):
        reader_cls = MyReader

    class MyDOMWriter(ns.DiffXDOMWriter):
        writer_cls = MyWriter

    try:
        sub = MyDiffX.from_bytes(data)
        via = MyDOMReader(ns.DiffX).parse(io.BytesIO(data))
        stream = io.BytesIO()
        MyDOMWriter().write_stream(diffx, stream)
    except Exception as e:
        return 'extension-point-failed:%s' % type(e).__name__, repr(e)

    if type(sub) is not MyDiffX:
        return ('subclass-not-instantiated',
                'MyDiffX.from_bytes() returned %s' % type(sub).__name__)

    plain = trees.snapshot(ns.DiffX.from_bytes(data))
    s1 = trees.snapshot(sub)
    s1[0] = 'DiffX'

    if not trees.snap_eq(s1, plain) or \
            not trees.snap_eq(trees.snapshot(via), plain):
        return ('extension-point-changes-the-result',
                'subclass / reader_cls give a different tree')

    if stream.getvalue() != data:
        return ('extension-point-changes-the-result',
                'writer_cls gives different bytes')

    return None


def run_case(tree, st):
    ns = sut.load()
    labels, nontrivial = trees.tree_features(tree)
    program = trees.program_of(tree)
    ok, reason = trees.serialisable(program)
    st.case(tree, nontrivial=nontrivial and ok,
            classes=labels + ['serialisable' if ok else
                              'model-rejects:' + reason.split(':')[0]])
    diffx = trees.build(tree)
    before = trees.snapshot(diffx)

    try:
        data = diffx.to_bytes()
        raised = None
    except Exception as e:
        data = None
        raised = e

    if not trees.snap_eq(trees.snapshot(diffx), before):
        st.violation('to_bytes-mutated-the-tree',
                     trees.snap_diff(before, trees.snapshot(diffx)), tree)
        return

    # the same tree put together while being looked at (serialised,
    # printed, compared, walked) after every step
    try:
        data2 = trees.build(tree, probe=True).to_bytes()
        raised2 = None
    except Exception as e:
        data2 = None
        raised2 = e

    if data2 != data or (raised is None) != (raised2 is None):
        st.violation('bytes-depend-on-looking-at-the-tree-while-building',
                     'plain build: %r / %r; build with to_bytes(), repr(), '
                     '== and subsections after every step: %r / %r'
                     % (raised, (data or b'')[:120], raised2,
                        (data2 or b'')[:120]), tree)
        return

    # ... and with every content assigned twice (something else first, the
    # options in between)
    try:
        data3 = trees.build(dict(tree, via_constructor=False),
                            staged=True).to_bytes()
        raised3 = None
    except Exception as e:
        data3 = None
        raised3 = e

    if data3 != data or (raised is None) != (raised3 is None):
        st.violation('bytes-depend-on-earlier-content-of-a-section',
                     'plain build: %r / %r; every content first assigned '
                     'something else: %r / %r'
                     % (raised, (data or b'')[:120], raised3,
                        (data3 or b'')[:120]), tree)
        return

    if not ok:
        if raised is None:
            st.violation('unserialisable-tree-accepted',
                         'model: %s; to_bytes returned %r' % (reason,
                                                              data[:200]),
                         tree)

        return

    if raised is not None:
        where = sut.innermost_pydiffx_frame(raised)
        st.violation('serialisable-tree-rejected:%s' % type(raised).__name__,
                     '%r at %s' % (raised, where), tree)
        return

    # (a) canonical bytes
    bad = spec.match_segments(data, spec.ref_segments(program))

    if bad is not None:
        i, pos = bad
        st.violation('bytes-differ-from-canonical',
                     'section %d: got %r' % (i, data[pos:pos + 100]), tree)
        return

    # (b) same tree after the documented normalisation
    try:
        back = ns.DiffX.from_bytes(data)
    except Exception as e:
        st.violation('own-output-not-parsed:%s' % type(e).__name__,
                     repr(e), tree)
        return

    got = trees.snapshot(back)
    want = trees.expected_snapshot(tree)

    # the documented extension points give the same result: a DiffX
    # subclass, and reader / writer classes plugged into the DOM helpers
    res = check_hooks(ns, diffx, data)

    if res is not None:
        st.violation(res[0], res[1], tree)
        return

    if not trees.snap_eq(got, want):
        st.violation('tree-changed-by-round-trip',
                     trees.snap_diff(want, got) or 'type-level difference',
                     tree)


def checks():
    return [
        HypCheck(
            'trees', lambda: trees.trees(), run_case,
            budget={'quick': (16, 200), 'thorough': (16, 5000)},
            rule='trees built through DiffX()/add_change()/add_file() '
                 'keywords or typed attribute assignment (<=4 changes x <=3 '
                 'files, every documented attribute set or unset, 11 codecs, '
                 'empty and absent contents, options on sections that end up '
                 'omitted); to_bytes must succeed iff the model says the '
                 'tree is serialisable, bytes == canonical serialisation, '
                 'from_bytes(bytes) == tree after the documented '
                 'normalisation (own snapshot, not __eq__); non-trivial = '
                 'serialisable, (>=2 changes or >=2 files) and >=1 option '
                 'set'),
    ]
