"""C19 -- typed attributes validate atomically; equality is structural and
congruent."""

import copy

from hypothesis import strategies as hs

from dxv import sut, trees
from dxv.engine import EnumCheck, HypCheck

ASSUMPTIONS = [
    'validity of a value is decided from the documented type and choices of '
    'each attribute (encoding: any str; version: {1.0}; *_line_endings: '
    '{unix,dos}; mimetype: {text/plain,text/markdown}; format: {json}; '
    'type: {text,binary}; indent: int; preamble: str; meta: dict; diff: '
    'bytes)',
    'a bool offered for an int attribute may be stored or refused (bool is '
    'an int in Python); if stored it must read back as given',
    'tree pairs that differ only by values Python itself considers equal '
    '(1 vs 1.0 vs True) are not judged for ==, and not for byte equality',
    'unknown constructor keyword = a name that is not an attribute of the '
    'class at all',
]

LE = ('unix', 'dos')
SPECS = {
    # name: (type, choices)
    'encoding': (str, None),
    'version': (str, ('1.0',)),
    'preamble': (str, None),
    'preamble_encoding': (str, None),
    'preamble_indent': (int, None),
    'preamble_line_endings': (str, LE),
    'preamble_mimetype': (str, ('text/plain', 'text/markdown')),
    'meta': (dict, None),
    'meta_encoding': (str, None),
    'meta_format': (str, ('json',)),
    'diff': (bytes, None),
    'diff_encoding': (str, None),
    'diff_line_endings': (str, LE),
    'diff_type': (str, ('text', 'binary')),
    # directly on the content sections
    'content:preamble': (str, None),
    'content:meta': (dict, None),
    'content:diff': (bytes, None),
    'indent': (int, None),
    'line_endings': (str, LE),
    'mimetype': (str, ('text/plain', 'text/markdown')),
    'format': (str, ('json',)),
    'type': (str, ('text', 'binary')),
}

OWNERS = {
    'main': ['encoding', 'version', 'preamble', 'preamble_encoding',
             'preamble_indent', 'preamble_line_endings', 'preamble_mimetype',
             'meta', 'meta_encoding', 'meta_format'],
    'change': ['encoding', 'preamble', 'preamble_encoding', 'preamble_indent',
               'preamble_line_endings', 'preamble_mimetype', 'meta',
               'meta_encoding', 'meta_format'],
    'file': ['encoding', 'meta', 'meta_encoding', 'meta_format', 'diff',
             'diff_encoding', 'diff_line_endings', 'diff_type'],
    'preamble_section': ['content:preamble', 'encoding', 'indent',
                         'line_endings', 'mimetype'],
    'meta_section': ['content:meta', 'encoding', 'format'],
    'diff_section': ['content:diff', 'encoding', 'line_endings', 'type'],
}


def substrings(s):
    out = set()

    for i in range(len(s)):
        for j in range(i + 1, len(s) + 1):
            if s[i:j] != s:
                out.add(s[i:j])

    return out


def catalogue(name):
    """Candidate values for one attribute: right and wrong type/choice."""
    typ, choices = SPECS[name]
    vals = [None, 0, 1, 4, -1, 2 ** 40, 1.5, True, False, '', 'x', 'utf-8',
            'unix', 'dos', 'json', 'text', 'binary', '1.0', 'text/plain',
            'text/markdown', 'UNIX', 'Json', ' unix', 'unix ', 'nope',
            b'', b'x', b'unix', b'json', bytearray(b'x'), [], [1], (), {},
            {'a': 1}, {'a': {'b': [1]}}, ('unix',), ['json'], 3 + 0j]

    if choices:
        for c in choices:
            vals.append(c)

            for sub in sorted(substrings(c)):
                vals.append(sub)

            vals.append(c + c)
            vals.append(c.upper())

            for suffix in (';', '; a=b', '; charset=utf-8', ' ', '\n', '/',
                           ',', '+x', '\x00', '.0'):
                vals.append(c + suffix)

            for prefix in (' ', 'x-', '\n'):
                vals.append(prefix + c)

    return vals


def is_valid(name, value):
    """True / False / None (either outcome allowed)."""
    typ, choices = SPECS[name]

    if typ is int and isinstance(value, bool):
        return None

    if not isinstance(value, typ):
        return False

    if choices is not None and value not in choices:
        return False

    return True


BASE_TREE = {
    'main': {'preamble': 'main text', 'meta': {'m': 1},
             'preamble_indent': 2},
    'changes': [
        {'attrs': {'preamble': 'c0', 'meta': {'c': [0]}},
         'files': [{'meta': {'path': 'a', 'stats': {'insertions': 1,
                                                     'deletions': 1,
                                                     'lines changed': 2,
                                                     'x-tool': 7}},
                    'diff': b'@@ -1 +1 @@\n-a\n+b\n'},
                   {'meta': {'path': 'b', 'stats': {'insertions': 3}},
                    'diff': b'@@ -1 +1 @@\n-c\n+d\n',
                    'diff_type': 'binary'}]},
        {'attrs': {'encoding': 'latin-1'},
         'files': [{'meta': {'path': 'c'}, 'diff_encoding': 'utf-8'}]},
    ],
    'via_constructor': True,
}


def target_of(diffx, owner):
    if owner == 'main':
        return diffx

    if owner == 'change':
        return diffx.changes[0]

    if owner == 'file':
        return diffx.changes[0].files[1]

    if owner == 'preamble_section':
        return diffx.changes[0].preamble_section

    if owner == 'meta_section':
        return diffx.changes[1].files[0].meta_section

    return diffx.changes[0].files[0].diff_section


def judge_assignment(owner, name, value):
    """None or (kind, detail)."""
    diffx = trees.build(BASE_TREE)
    target = target_of(diffx, owner)
    attr = 'content' if name.startswith('content:') else name
    before = trees.snapshot(diffx)
    given = copy.deepcopy(value)
    valid = is_valid(name, value)
    raised = None

    try:
        setattr(target, attr, given)
    except Exception as e:
        raised = e

    after = trees.snapshot(diffx)
    what = '%s.%s = %r' % (owner, attr, value)

    if raised is not None:
        if valid is True:
            return 'valid-value-refused', '%s raised %r' % (what, raised)

        if not trees.snap_eq(before, after):
            return ('refused-assignment-changed-the-tree',
                    '%s raised but: %s' % (what,
                                           trees.snap_diff(before, after)))

        return None

    if valid is False:
        return 'invalid-value-stored', '%s was accepted' % what

    try:
        got = getattr(target, attr)
    except Exception as e:
        return 'stored-value-unreadable', '%s then read: %r' % (what, e)

    if type(got) is not type(value) or got != value:
        return 'stored-value-differs', '%s reads back as %r' % (what, got)

    # nothing else in the tree changed: undo by comparing against a tree in
    # which only this attribute was set by the same means
    other = trees.build(BASE_TREE)
    setattr(target_of(other, owner), attr, copy.deepcopy(value))

    if not trees.snap_eq(trees.snapshot(other), after):
        return 'assignment-not-deterministic', what

    # all differences between before and after are confined to one section
    diffs = _diff_paths(before, after)

    if len(diffs) > 1:
        return ('assignment-changed-other-sections',
                '%s changed %r' % (what, diffs))

    return None


def _diff_paths(a, b, path=()):
    """Paths of sections whose own options/content differ."""
    out = []

    if a[2] != b[2] or a[3] != b[3] or \
            not trees.snap_eq(a[2], b[2]) or not trees.snap_eq(a[3], b[3]):
        out.append(path)

    if len(a[4]) != len(b[4]):
        out.append(path + ('children',))
        return out

    for i, (x, y) in enumerate(zip(a[4], b[4])):
        out.extend(_diff_paths(x, y, path + (i,)))

    return out


FULL_TREE = {
    'main': {'preamble': 'main text', 'meta': {'m': {'deep': [1]}},
             'preamble_indent': 2, 'preamble_encoding': 'utf-8',
             'preamble_line_endings': 'unix',
             'preamble_mimetype': 'text/plain', 'meta_encoding': 'utf-8',
             'meta_format': 'json', 'encoding': 'utf-8'},
    'changes': [
        {'attrs': {'preamble': 'c0', 'meta': {'c': [0]}, 'encoding': 'utf-8',
                   'preamble_indent': 1, 'preamble_encoding': 'latin-1',
                   'preamble_line_endings': 'dos',
                   'preamble_mimetype': 'text/markdown',
                   'meta_encoding': 'utf-16', 'meta_format': 'json'},
         'files': [{'meta': {'path': 'a', 'stats': {'insertions': 1,
                                                     'deletions': 1,
                                                     'lines changed': 2,
                                                     'x-tool': 7}},
                    'diff': b'@@ -1 +1 @@\n-a\n+b\n',
                    'encoding': 'utf-8', 'meta_encoding': 'utf-8',
                    'meta_format': 'json', 'diff_encoding': 'utf-8',
                    'diff_line_endings': 'unix', 'diff_type': 'text'},
                   {'meta': {'path': 'b', 'stats': {'insertions': 3}},
                    'diff': b'x\n',
                    'encoding': 'utf-8', 'meta_encoding': 'utf-8',
                    'meta_format': 'json', 'diff_encoding': 'utf-8',
                    'diff_line_endings': 'unix', 'diff_type': 'binary'}]},
        {'attrs': {'encoding': 'latin-1', 'preamble': 'c1',
                   'meta': {'k': 'v'}, 'preamble_indent': 0,
                   'preamble_encoding': 'utf-8',
                   'preamble_line_endings': 'unix',
                   'preamble_mimetype': 'text/plain',
                   'meta_encoding': 'utf-8', 'meta_format': 'json'},
         'files': [{'meta': {'path': 'c'}, 'diff': b'y\n', 'encoding': 'utf-8',
                    'meta_encoding': 'utf-8', 'meta_format': 'json',
                    'diff_encoding': 'utf-8', 'diff_line_endings': 'dos',
                    'diff_type': 'text'}]},
    ],
    'via_constructor': True,
}


def equal_wrong_type(cur):
    import collections
    import decimal
    import fractions
    out = []

    if type(cur) is int:
        out += [float(cur), complex(cur), decimal.Decimal(cur),
                fractions.Fraction(cur)]
    elif type(cur) is bytes:
        out += [bytearray(cur), memoryview(cur)]
    elif type(cur) is dict:
        out += [collections.UserDict(cur), collections.ChainMap(cur)]
    elif type(cur) is str:
        out += [collections.UserString(cur)]

    return out


def judge_equal_wrong_type(owner, name):
    attr = 'content' if name.startswith('content:') else name
    probe = trees.build(FULL_TREE)
    cur = getattr(target_of(probe, owner), attr)
    results = []

    for value in equal_wrong_type(cur):
        diffx = trees.build(FULL_TREE)
        target = target_of(diffx, owner)
        before = trees.snapshot(diffx)
        what = '%s.%s = %r (current value %r)' % (owner, attr, value, cur)

        try:
            setattr(target, attr, value)
        except Exception:
            if not trees.snap_eq(before, trees.snapshot(diffx)):
                results.append((('refused-assignment-changed-the-tree',
                                 what), value))
            else:
                results.append((None, value))

            continue

        results.append((('invalid-value-stored',
                         '%s was accepted' % what), value))

    return results


def judge_self_assignment(owner, name):
    diffx = trees.build(FULL_TREE)
    target = target_of(diffx, owner)
    attr = 'content' if name.startswith('content:') else name
    before = trees.snapshot(diffx)

    try:
        setattr(target, attr, getattr(target, attr))
    except Exception as e:
        return ('self-assignment-raised',
                '%s.%s = its own value raised %r' % (owner, attr, e))

    after = trees.snapshot(diffx)

    if not trees.snap_eq(before, after):
        return ('self-assignment-changed-the-tree',
                '%s.%s = its own value: %s' % (owner, attr,
                                               trees.snap_diff(before, after)))

    return None


# siblings that are equal to each other, or to a section nothing was set
# on yet, followed by a different one
DUP_TREE = {
    'main': {},
    'changes': [
        {'attrs': {'meta': {'c': 1}},
         'files': [{'meta': {'path': 'a'}}, {}, {'meta': {'path': 'a'}},
                   {'meta': {'path': 'z'}}]},
        {'attrs': {}, 'files': []},
        {'attrs': {'meta': {'c': 1}}, 'files': []},
        {'attrs': {'meta': {'c': 3}}, 'files': []},
    ],
    'via_constructor': True,
}


def judge_main_constructor(name, value):
    """DiffX(name=value): the same typed check as assignment."""
    ns = sut.load()
    valid = is_valid(name, value)
    what = 'DiffX(%s=%r)' % (name, value)

    try:
        diffx = ns.DiffX(**{name: copy.deepcopy(value)})
    except Exception as e:
        if valid is True:
            return 'valid-value-refused', '%s raised %r' % (what, e)

        return None

    if valid is False:
        return 'invalid-value-stored', '%s was accepted' % what

    got = getattr(diffx, name)

    if type(got) is not type(value) or got != value:
        return 'stored-value-differs', '%s reads back as %r' % (what, got)

    return None


def judge_constructor(owner, name, value, base=None):
    if owner == 'main':
        return judge_main_constructor(name, value)

    diffx = trees.build(base or BASE_TREE)
    before = trees.snapshot(diffx)
    valid = is_valid(name, value)
    factory = (diffx.add_change if owner == 'change'
               else diffx.changes[0 if base else 1].add_file)
    what = 'add_%s(%s=%r)' % (owner, name, value)

    try:
        sec = factory(**{name: copy.deepcopy(value)})
    except Exception as e:
        if valid is True:
            return 'valid-value-refused', '%s raised %r' % (what, e)

        if not trees.snap_eq(before, trees.snapshot(diffx)):
            return ('refused-constructor-changed-the-tree',
                    '%s raised but: %s' % (what, trees.snap_diff(
                        before, trees.snapshot(diffx))))

        return None

    if valid is False:
        return 'invalid-value-stored', '%s was accepted' % what

    got = getattr(sec, name)

    if type(got) is not type(value) or got != value:
        return 'stored-value-differs', '%s reads back as %r' % (what, got)

    return None


UNKNOWN_KW = ['meta_content', 'preamble_content', 'diff_content',
              'diff_options', 'meta_options', 'preamble_options',
              'meta__content', 'meta_section_id', 'preamble__level',
              'diff__content', 'meta_section', 'subsections_',
              'foo', 'lenght', 'Encoding', 'preamble_text', 'metadata',
              'indent_', 'diff_content', 'file', 'change', 'line_ending',
              'mimetypes', 'text', 'length']


def judge_unknown_kw(owner, kw):
    ns = sut.load()
    diffx = ns.DiffX()
    before = None

    try:
        if owner == 'main':
            cls = ns.DiffX
            factory = ns.DiffX
        elif owner == 'change':
            cls = ns.dom.DiffXChangeSection
            factory = diffx.add_change
            before = trees.snapshot(diffx)
        else:
            cls = ns.dom.DiffXFileSection
            change = diffx.add_change()
            factory = change.add_file
            before = trees.snapshot(diffx)

        if hasattr(cls, kw):
            return None

        factory(**{kw: 'x'})
    except ns.errors.DiffXUnknownOptionError:
        if before is not None and not trees.snap_eq(before,
                                                    trees.snapshot(diffx)):
            return ('rejected-constructor-changed-the-tree',
                    '%s(%s=...)' % (owner, kw))

        return None
    except Exception as e:
        return ('unknown-keyword-wrong-exception:%s' % type(e).__name__,
                '%s(%s=...) raised %r' % (owner, kw, e))

    return 'unknown-keyword-accepted', '%s(%s=...) accepted' % (owner, kw)


def enum_chunks(tier, seed):
    return sorted(OWNERS)


def run_enum_chunk(owner, st):
    evals = 0
    nontrivial = 0
    classes = {'valid': 0, 'invalid': 0, 'either': 0}
    sample = None

    for name in OWNERS[owner]:
        for value in catalogue(name):
            res = judge_assignment(owner, name, value)
            v = is_valid(name, value)
            classes['valid' if v else 'either' if v is None else
                    'invalid'] += 1
            evals += 1
            nontrivial += 1

            if sample is None and v is False and isinstance(value, str):
                sample = {'owner': owner, 'attribute': name, 'value': value}

            if res is not None:
                st.violation(res[0], res[1],
                             {'owner': owner, 'name': name, 'value': value})

    # a value that compares equal to the current one but has the wrong
    # type is still the wrong type
    for name in OWNERS[owner]:
        for res, value in judge_equal_wrong_type(owner, name):
            evals += 1
            nontrivial += 1

            if res is not None:
                st.violation(res[0], res[1],
                             {'owner': owner, 'name': name,
                              'via': 'equal-wrong-type',
                              'value': repr(value)})

    # assigning an attribute its own current value changes nothing
    for name in OWNERS[owner]:
        res = judge_self_assignment(owner, name)
        evals += 1
        nontrivial += 1

        if res is not None:
            st.violation(res[0], res[1],
                         {'owner': owner, 'name': name, 'via': 'self'})

    if owner in ('main', 'change', 'file'):
        # the same values through DiffX() / add_change() / add_file()
        # keywords: a refused keyword must leave the tree without the new
        # section -- also where an equal sibling exists already
        for name in OWNERS[owner]:
            for value in catalogue(name):
                for base in ((None,) if owner == 'main'
                             else (None, DUP_TREE)):
                    res = judge_constructor(owner, name, value, base)
                    evals += 1
                    nontrivial += 1

                    if res is not None:
                        st.violation(res[0], res[1],
                                     {'owner': owner, 'name': name,
                                      'value': value, 'via': 'constructor',
                                      'dup': base is not None})

    if owner in ('main', 'change', 'file'):
        for kw in UNKNOWN_KW:
            res = judge_unknown_kw(owner, kw)
            evals += 1
            nontrivial += 1

            if res is not None:
                st.violation(res[0], res[1], {'owner': owner, 'kw': kw})

    st.bulk(evals, nontrivial, classes=classes, sample=sample)


def run_enum_case(case, st):
    if case.get('via') == 'equal-wrong-type':
        res = None

        for r, value in judge_equal_wrong_type(case['owner'], case['name']):
            if r is not None and repr(value) == case.get('value'):
                res = r
    elif case.get('via') == 'self':
        res = judge_self_assignment(case['owner'], case['name'])
    elif case.get('via') == 'constructor':
        res = judge_constructor(case['owner'], case['name'], case['value'],
                                DUP_TREE if case.get('dup') else None)
    elif 'kw' in case:
        res = judge_unknown_kw(case['owner'], case['kw'])
    else:
        res = judge_assignment(case['owner'], case['name'], case['value'])

    st.case(case, nontrivial=True)

    if res is not None:
        st.violation(res[0], res[1], case)


# -- equality -----------------------------------------------------------------

def py_eq(a, b):
    """Plain Python equality of snapshots (what a structural == sees)."""
    return a == b


PERTURB_VALUES = {
    'encoding': ['utf-8', 'latin-1', 'utf-16'],
    'preamble': ['other', 'x\n', ''],
    'preamble_encoding': ['utf-8', 'cp037'],
    'preamble_indent': [0, 1, 4, 9],
    'preamble_line_endings': ['unix', 'dos'],
    'preamble_mimetype': ['text/plain', 'text/markdown'],
    'meta': [{'z': 1}, {'z': 2}, {'z': [1, {'y': None}]}, {},
             # equal as JSON documents, different as Python values
             {'z': [1, 2]}, {'z': {trees.AS_TUPLE: [1, 2]}},
             {'n': {'1': 'v'}}, {'n': {trees.INT_KEYS: {'1': 'v'}}},
             {'z': 1.0}, {'z': True}],
    'meta_encoding': ['utf-8', 'utf-32'],
    'meta_format': ['json'],
    'diff': [b'x\n', b'y\n', b''],
    'diff_encoding': ['utf-8', 'latin-1'],
    'diff_line_endings': ['unix', 'dos'],
    'diff_type': ['text', 'binary'],
}


ALIASES = {
    'utf-8': ['utf8', 'UTF-8', 'U8', 'utf_8'],
    'latin-1': ['latin1', 'iso-8859-1', 'L1', 'iso8859-1'],
    'utf-16': ['UTF-16', 'utf_16', 'U16'],
    'utf-32': ['UTF-32', 'utf_32', 'U32'],
    'ascii': ['us-ascii', 'ASCII', '646'],
    'cp037': ['IBM037', 'ibm037', 'CP037'],
    'cp1252': ['windows-1252', 'CP1252'],
    'utf-16-le': ['UTF-16LE', 'utf_16_le'],
    'utf-16-be': ['UTF-16BE', 'utf_16_be'],
    'utf-32-le': ['UTF-32LE'], 'utf-32-be': ['UTF-32BE'],
    'shift_jis': ['sjis', 'shiftjis'], 'gbk': ['936', 'cp936'],
    'big5': ['big5-tw', 'csbig5'], 'koi8-r': ['KOI8-R', 'koi8_r'],
}
ENC_ATTRS = ('encoding', 'preamble_encoding', 'meta_encoding',
             'diff_encoding')


def _reversed_keys(v):
    if isinstance(v, dict):
        return {k: _reversed_keys(v[k]) for k in reversed(list(v))}

    if isinstance(v, list):
        return [_reversed_keys(x) for x in v]

    return v


@hs.composite
def pairs(draw):
    t = draw(trees.trees(max_changes=3, max_files=3))
    u = copy.deepcopy(t)
    n = draw(hs.sampled_from([0, 1, 1, 1, 2]))
    ops = []

    for _ in range(n):
        kind = draw(hs.sampled_from(['set', 'set', 'set', 'unset', 'deep',
                                     'respell', 'respell', 'toggle-eol',
                                     'toggle-eol', 'nested-order',
                                     'json-twin',
                                     'reorder-keys', 'reorder-keys',
                                     'add-change', 'del-change',
                                     'swap-changes', 'add-file', 'del-file',
                                     'swap-files', 'move-file', 'move-file',
                                     'copy-file']))
        changes = u['changes']

        # pick a container description
        where = [('main', u['main'], trees.MAIN_ATTRS)]

        for c in changes:
            where.append(('change', c['attrs'], trees.CHANGE_ATTRS))

            for f in c['files']:
                where.append(('file', f, trees.FILE_ATTRS))

        label, attrs, names = draw(hs.sampled_from(where))

        if kind == 'set':
            name = draw(hs.sampled_from(names))
            attrs[name] = draw(hs.sampled_from(PERTURB_VALUES[name]))
        elif kind == 'json-twin':
            # metadata that would be written as the same JSON text but is a
            # different Python value (a tuple for a list, 1 for "1" as a
            # key): different content, so different trees
            base = {'z': [1, 2], 'n': {'1': 'v'}}
            variant = draw(hs.sampled_from([
                {'z': {trees.AS_TUPLE: [1, 2]}, 'n': {'1': 'v'}},
                {'z': [1, 2], 'n': {trees.INT_KEYS: {'1': 'v'}}}]))
            twin = t['main'] if label == 'main' else None

            for cc, uc in zip(t['changes'], changes):
                if uc['attrs'] is attrs:
                    twin = cc['attrs']

                for ff, uf in zip(cc['files'], uc['files']):
                    if uf is attrs:
                        twin = ff

            if twin is not None:
                twin['meta'] = copy.deepcopy(base)
                attrs['meta'] = variant
        elif kind == 'nested-order':
            # the same metadata, every object (also those inside lists,
            # at any depth) filled in the opposite order: equal content
            nested = {'rows': [{'line': 1, 'col': 2,
                                'spans': [[{'y': 1, 'x': 2}], {'b': 0,
                                                               'a': 0}]}],
                      'zeta': 1, 'alpha': {'n': 1, 'm': 2}}
            attrs['meta'] = _reversed_keys(nested)

            # ... in both trees
            twin = t['main'] if label == 'main' else None
            ci = 0

            for cc, uc in zip(t['changes'], changes):
                if uc['attrs'] is attrs:
                    twin = cc['attrs']

                for ff, uf in zip(cc['files'], uc['files']):
                    if uf is attrs:
                        twin = ff

            if twin is not None:
                twin['meta'] = copy.deepcopy(nested)
            else:
                del attrs['meta']
        elif kind == 'toggle-eol':
            # the last line gains or loses its terminator: other content
            named = [k for k in ('preamble', 'diff')
                     if isinstance(attrs.get(k), (str, bytes)) and attrs[k]]

            if named:
                k = draw(hs.sampled_from(named))
                v = attrs[k]
                lf = '\n' if isinstance(v, str) else b'\n'
                crlf = '\r\n' if isinstance(v, str) else b'\r\n'

                if v.endswith(crlf):
                    attrs[k] = v[:-2]
                elif v.endswith(lf):
                    attrs[k] = v[:-1]
                else:
                    attrs[k] = v + draw(hs.sampled_from([lf, lf, crlf]))
        elif kind == 'respell':
            # the same codec under another registered name is another
            # option value (and other bytes in the header)
            named = [k for k in ENC_ATTRS
                     if k in attrs and attrs[k] in ALIASES]

            if named:
                k = draw(hs.sampled_from(named))
                attrs[k] = draw(hs.sampled_from(ALIASES[attrs[k]]))
        elif kind == 'unset' and attrs:
            del attrs[draw(hs.sampled_from(sorted(attrs)))]
        elif kind == 'deep' and isinstance(attrs.get('meta'), dict):
            attrs['meta'] = dict(attrs['meta'])
            attrs['meta'][draw(hs.sampled_from(['k', 'path', 'new']))] = \
                draw(hs.sampled_from([None, 0, 'v', [1], {'n': {}}]))
        elif kind == 'reorder-keys' and isinstance(attrs.get('meta'), dict):
            # the same metadata filled in another order (also inside lists)
            attrs['meta'] = _reversed_keys(attrs['meta'])
        elif kind == 'add-change':
            changes.insert(draw(hs.integers(0, len(changes))),
                           {'attrs': {}, 'files': []})
        elif kind == 'del-change' and changes:
            del changes[draw(hs.integers(0, len(changes) - 1))]
        elif kind == 'swap-changes' and len(changes) >= 2:
            i = draw(hs.integers(0, len(changes) - 2))
            changes[i], changes[i + 1] = changes[i + 1], changes[i]
        elif kind == 'move-file' and len(changes) >= 2:
            # a file crosses the boundary between two changes whose own
            # sections are equal: another shape
            i = draw(hs.integers(0, len(changes) - 2))
            a, b = changes[i], changes[i + 1]

            for tw in (t['changes'][i:i + 2] if len(t['changes']) >
                       i + 1 else []):
                tw['attrs'] = {}

            a['attrs'], b['attrs'] = {}, {}

            if a['files']:
                b['files'].insert(0, a['files'].pop())
            elif b['files']:
                a['files'].append(b['files'].pop(0))
        elif kind == 'copy-file' and changes:
            # one file becomes an exact copy of a sibling
            c = draw(hs.sampled_from(changes))

            if len(c['files']) >= 2:
                k = draw(hs.integers(0, len(c['files']) - 2))
                c['files'][k + 1] = copy.deepcopy(c['files'][k])
        elif kind in ('add-file', 'del-file', 'swap-files') and changes:
            c = draw(hs.sampled_from(changes))
            files = c['files']

            if kind == 'add-file':
                files.insert(draw(hs.integers(0, len(files))), {})
            elif kind == 'del-file' and files:
                del files[draw(hs.integers(0, len(files) - 1))]
            elif kind == 'swap-files' and len(files) >= 2:
                i = draw(hs.integers(0, len(files) - 2))
                files[i], files[i + 1] = files[i + 1], files[i]

        ops.append(kind)

    post = []

    if draw(hs.integers(0, 3)) == 0:
        # an option changed through the section's (documented, unchecked)
        # options dictionary
        post.append([draw(hs.integers(-1, 2)), draw(hs.integers(-1, 2)),
                     draw(hs.sampled_from(['self', 'preamble', 'meta',
                                           'diff'])),
                     draw(hs.sampled_from(['indent', 'encoding',
                                           'line_endings', 'format', 'type',
                                           'mimetype', 'custom'])),
                     draw(hs.sampled_from([None, None, 0, 4, 'x', 'utf-8',
                                           '$del']))])
        ops.append('options-dict')

    if draw(hs.integers(0, 2)) == 0:
        # the same description filled in in the opposite order: the options
        # are a mapping, their order of arrival is not part of the tree
        u['attr_order'] = 'reversed'
        ops.append('reversed-attribute-order')

    return {'a': t, 'b': u, 'ops': ops, 'post': post}


def _apply_post(tree, post):
    for c, f, which, key, value in post:
        sec = tree

        if c >= 0 and tree.changes:
            sec = tree.changes[c % len(tree.changes)]

            if f >= 0 and sec.files:
                sec = sec.files[f % len(sec.files)]

        if which != 'self':
            sec = getattr(sec, which + '_section', sec)

        if value == '$del':
            sec.options.pop(key, None)
        else:
            sec.options[key] = value


def run_pair(case, st):
    a = trees.build(case['a'], ordered=False)
    b = trees.build(case['b'], ordered=False)
    _apply_post(b, case.get('post') or [])
    sa, sb = trees.snapshot(a), trees.snapshot(b)
    strict = trees.snap_eq(sa, sb)
    loose = py_eq(sa, sb)
    st.case(case, nontrivial=bool(case.get('ops')),
            classes=['equal-pair' if strict else 'python-equal-only'
                     if loose else 'unequal-pair'] +
            ['op:' + o for o in sorted(set(case.get('ops', ())))])

    try:
        eq = (a == b)
        ne = (a != b)
        eq_r = (b == a)
    except Exception as e:
        st.violation('comparison-raised:%s' % type(e).__name__, repr(e), case)
        return

    if not isinstance(eq, bool) or not isinstance(ne, bool):
        st.violation('comparison-not-boolean', '%r %r' % (eq, ne), case)
        return

    if eq == ne:
        st.violation('eq-ne-inconsistent', '== %r, != %r' % (eq, ne), case)

    if eq != eq_r:
        st.violation('eq-not-symmetric', 'a==b %r, b==a %r' % (eq, eq_r),
                     case)

    if not trees.snap_eq(trees.snapshot(a), sa) or \
            not trees.snap_eq(trees.snapshot(b), sb):
        st.violation('comparison-mutated-operand', '', case)

    if strict and not eq:
        st.violation('identical-trees-unequal',
                     'two trees built from the same description compare '
                     'unequal', case)
    elif not loose and eq:
        st.violation('different-trees-equal',
                     'trees differ (%s) but compare equal'
                     % trees.snap_diff(sa, sb), case)

    # sections of the same position
    if strict and a.changes and not (a.changes[0] == b.changes[0]):
        st.violation('identical-sections-unequal', 'changes[0]', case)

    if strict and eq:
        try:
            ba, bb = a.to_bytes(), b.to_bytes()
        except Exception:
            ba = bb = None

        if ba != bb:
            st.violation('equal-trees-serialise-differently',
                         '%r vs %r' % (ba[:120], bb[:120]), case)
            return

    # the same section object listed twice equals two separate equal
    # sections, and must serialise like them
    if a.changes:
        twin_a = trees.build(case['a'])
        twin_b = trees.build(case['a'])
        first_desc = dict(case['a'])
        first_desc['changes'] = [case['a']['changes'][0]]
        extra = trees.build(first_desc).changes[0]
        twin_a.changes.append(extra)                # a separate equal change
        twin_b.changes.append(twin_b.changes[0])    # the same object again

        if trees.snap_eq(trees.snapshot(twin_a), trees.snapshot(twin_b)):
            try:
                same = (twin_a == twin_b)
                ba, bb = twin_a.to_bytes(), twin_b.to_bytes()
            except Exception:
                same = ba = bb = None

            if same is False:
                st.violation('identical-trees-unequal',
                             'a tree listing one change object twice vs two '
                             'equal changes', case)
            elif ba != bb:
                st.violation('equal-trees-serialise-differently',
                             'a tree listing one change object twice '
                             'serialises differently from one with two '
                             'equal changes', case)

    # history: b has now been compared (and perhaps serialised); edit it in
    # place without changing the number of sections and look again
    edits = []

    if len(b.changes) >= 2:
        b.changes.reverse()
        edits.append('changes reversed')

    for ch in b.changes:
        if len(ch.files) >= 2:
            ch.files[0], ch.files[-1] = ch.files[-1], ch.files[0]
            edits.append('files swapped')
            break

    if b.changes:
        b.changes[0].meta = {'edited': True}
        edits.append('meta replaced')

    if not edits:
        return

    sb2 = trees.snapshot(b)
    want = py_eq(sa, sb2)

    try:
        eq2 = (a == b)
    except Exception as e:
        st.violation('comparison-raised:%s' % type(e).__name__, repr(e), case)
        return

    if eq2 != want and trees.snap_eq(sa, sb2) == want:
        st.violation('equality-depends-on-history',
                     'after %s, == gave %r for trees whose options and '
                     'contents are %s' % (', '.join(edits), eq2,
                                          'equal' if want else 'different'),
                     case)
        return

    try:
        now = b.to_bytes()
        fresh = trees.rebuild(sb2).to_bytes()
    except Exception:
        return

    if now != fresh:
        st.violation('serialisation-depends-on-history',
                     'after %s, to_bytes() differs from a fresh tree with '
                     'the same options and contents' % ', '.join(edits), case)


def checks():
    return [
        EnumCheck(
            'attributes', enum_chunks, run_enum_chunk, run_case=run_enum_case,
            rule='every documented attribute name on every section kind '
                 '(DiffX, change, file: own and forwarded; preamble, meta, '
                 'diff sections directly) x a value catalogue (right type '
                 'and choice, wrong type, right type wrong choice incl. '
                 'every substring / doubling / upper-casing of each valid '
                 'choice, None, bool-for-int, bytes-for-str, ...) on a fixed '
                 '2-change tree, plus 13 unknown constructor keywords per '
                 'container; valid values must be stored and read back '
                 'identically with nothing else changed, invalid ones must '
                 'raise with the whole-tree snapshot unchanged; every case '
                 'is distinct and non-trivial',
            bound={'quick': 'whole catalogue', 'thorough': 'whole catalogue'}),
        HypCheck(
            'equality', pairs, run_pair,
            budget={'quick': (16, 150), 'thorough': (16, 4000)},
            rule='pairs of generated trees: two builds of one description, '
                 'and 1-2 single-field perturbations (attribute set / unset, '
                 'deep metadata edit, change or file added / removed / '
                 'reordered); a == b iff own snapshots are equal, != is its '
                 'negation, == is symmetric and does not mutate, equal '
                 'trees serialise to identical bytes; non-trivial = at '
                 'least one perturbation applied'),
    ]
