"""Drivers, statistics, evidence, replay files and known findings.

A property module exposes ``checks()`` returning a list of HypCheck / EnumCheck
objects.  Every check has a pure ``run_case(case, st)`` (or ``run_chunk``) that
*records* discrepancies with ``st.violation(kind, detail, case)`` instead of
raising, so that one run enumerates distinct failure kinds ("buckets") and a
shallow defect cannot hide what lies behind it.  After the search, every
unlisted bucket is shrunk by re-running Hypothesis on the shard that found it
with a test that fails for that bucket only (collect-then-shrink), and the
shrunk case becomes the replay file.
"""

import collections
import hashlib
import json
import multiprocessing
import os
import sys
import time
import traceback

from dxv import sut

VERIF = os.path.dirname(os.path.dirname(os.path.abspath(__file__)))
# Evidence describes /repo itself; runs against a scratch copy (VERIF_REPO,
# used for the sensitivity trials) write elsewhere and are never committed.
_SCRATCH = os.path.abspath(sut.REPO) != '/repo'
EVIDENCE_DIR = os.path.join(VERIF, '.scratch-evidence' if _SCRATCH
                            else 'evidence')
REPLAY_DIR = os.path.join(VERIF, '.scratch-replays' if _SCRATCH
                          else 'replays')
FINDINGS_DIR = os.path.join(VERIF, 'findings')
KNOWN_FILE = os.path.join(VERIF, 'known_findings.txt')
NPROC = int(os.environ.get('VERIF_NPROC', '16'))


# ---------------------------------------------------------------------------
# JSON with bytes / tuples, so that a case *is* its replay file
# ---------------------------------------------------------------------------

def to_jsonable(o):
    if isinstance(o, bytes):
        return {'$b': o.decode('latin-1')}

    if isinstance(o, (list, tuple)):
        return [to_jsonable(x) for x in o]

    if isinstance(o, dict):
        if all(isinstance(k, str) for k in o):
            return {('$$' + k if k.startswith('$') else k): to_jsonable(v)
                    for k, v in o.items()}

        return {'$d': [[to_jsonable(k), to_jsonable(v)]
                       for k, v in o.items()]}

    if isinstance(o, float):
        if o != o or o in (float('inf'), float('-inf')):
            return {'$f': repr(o)}

        return o

    if isinstance(o, (set, frozenset)):
        return {'$s': sorted((to_jsonable(x) for x in o), key=repr)}

    if o is None or isinstance(o, (str, int, bool)):
        return o

    return {'$r': repr(o)}


def from_jsonable(o):
    if isinstance(o, list):
        return [from_jsonable(x) for x in o]

    if isinstance(o, dict):
        if len(o) == 1:
            if '$b' in o:
                return o['$b'].encode('latin-1')

            if '$d' in o:
                return {_hashable(from_jsonable(k)): from_jsonable(v)
                        for k, v in o['$d']}

            if '$f' in o:
                return float(o['$f'])

            if '$s' in o:
                return set(_hashable(from_jsonable(x)) for x in o['$s'])

            if '$r' in o:
                return o['$r']

        return {(k[2:] if k.startswith('$$') else k): from_jsonable(v)
                for k, v in o.items()}

    return o


def _hashable(o):
    if isinstance(o, list):
        return tuple(_hashable(x) for x in o)

    return o


def dumps(case, **kw):
    return json.dumps(to_jsonable(case), sort_keys=True, ensure_ascii=True,
                      **kw)


def loads(s):
    return from_jsonable(json.loads(s))


def digest(case):
    return hashlib.blake2b(dumps(case).encode('ascii'),
                           digest_size=8).digest()


# ---------------------------------------------------------------------------
# Statistics
# ---------------------------------------------------------------------------

class Stats(object):
    MAX_SAMPLES = 3

    def __init__(self):
        self.evals = 0
        self.nontrivial = set()
        self.nontrivial_bulk = 0
        self.classes = collections.Counter()
        self.samples = []
        self.excluded = collections.Counter()
        self.buckets = {}
        self.notes = {}

    # -- recording -------------------------------------------------------
    def case(self, case, nontrivial, classes=()):
        """Record one executed case (Hypothesis-style checks)."""
        self.evals += 1

        for c in classes:
            self.classes[c] += 1

        if nontrivial:
            d = digest(case)

            if d not in self.nontrivial:
                self.nontrivial.add(d)

                if len(self.samples) < self.MAX_SAMPLES:
                    self.samples.append(_sample(case))

    def bulk(self, evals, nontrivial, classes=None, sample=None):
        """Record many enumerated (hence distinct) cases at once."""
        self.evals += evals
        self.nontrivial_bulk += nontrivial

        if classes:
            self.classes.update(classes)

        if sample is not None and len(self.samples) < self.MAX_SAMPLES:
            self.samples.append(_sample(sample))

    def cls(self, *names):
        for n in names:
            self.classes[n] += 1

    def exclude(self, reason):
        self.excluded[reason] += 1

    def violation(self, kind, detail, case):
        b = self.buckets.get(kind)

        if b is None:
            self.buckets[kind] = {
                'count': 1,
                'detail': str(detail)[:2000],
                'case': to_jsonable(case),
                'shard': None,
            }
        else:
            b['count'] += 1

    # -- merging ---------------------------------------------------------
    def merge(self, other):
        self.evals += other.evals
        self.nontrivial |= other.nontrivial
        self.nontrivial_bulk += other.nontrivial_bulk
        self.classes.update(other.classes)
        self.excluded.update(other.excluded)

        for s in other.samples:
            if len(self.samples) < 2 * self.MAX_SAMPLES:
                self.samples.append(s)

        for kind, b in other.buckets.items():
            mine = self.buckets.get(kind)

            if mine is None:
                self.buckets[kind] = dict(b)
            else:
                mine['count'] += b['count']

                if (len(json.dumps(b['case'])) <
                        len(json.dumps(mine['case']))):
                    mine['case'] = b['case']
                    mine['detail'] = b['detail']
                    mine['shard'] = b['shard']

        for k, v in other.notes.items():
            self.notes.setdefault(k, v)

    @property
    def distinct_nontrivial(self):
        return len(self.nontrivial) + self.nontrivial_bulk


def _sample(case):
    j = to_jsonable(case)
    s = json.dumps(j, sort_keys=True)

    if len(s) <= 1500:
        return j

    return {'truncated': s[:1500] + '...', 'full_length': len(s)}


# ---------------------------------------------------------------------------
# Check descriptions
# ---------------------------------------------------------------------------

class HypCheck(object):
    """A check driven by a Hypothesis strategy."""

    kind = 'hypothesis'

    def __init__(self, name, strategy, run_case, budget, rule):
        self.name = name
        self.strategy = strategy      # zero-argument callable
        self.run_case = run_case      # run_case(case, st)
        self.budget = budget          # {'quick': (shards, n), 'thorough': ..}
        self.rule = rule
        self.exhaustive = False
        self.isolated = False         # uses engine.run_isolated

    #: Hypothesis remembers every example of a run; long runs over large
    #: examples are therefore cut into tasks of at most this many examples,
    #: each with its own seed and its own short-lived process.
    MAX_PER_TASK = 1500

    def tasks(self, tier, seed):
        shards, n = self.budget[tier]
        scale = float(os.environ.get('VERIF_BUDGET_SCALE', '1'))
        n = max(1, int(n * scale))
        per = self.MAX_PER_TASK

        while shards * ((n + per - 1) // per) > 999:
            per *= 2

        out = []

        for i in range(shards):
            left = n

            while left > 0:
                k = min(per, left)
                out.append(('hyp', seed * 1000 + len(out), k))
                left -= k

        return out

    def bound(self, tier):
        shards, n = self.budget[tier]
        return '%d shards x %d generated cases' % (shards, n)


class EnumCheck(object):
    """A check that enumerates a finite space, split into chunks."""

    kind = 'enumeration'

    def __init__(self, name, chunks, run_chunk, rule, bound, run_case=None,
                 exhaustive=True):
        self.name = name
        self.chunks = chunks          # chunks(tier, seed) -> list (picklable)
        self.run_chunk = run_chunk    # run_chunk(chunk, st)
        self.rule = rule
        self._bound = bound           # {'quick': str, 'thorough': str}
        self.run_case = run_case      # for --replay
        self.exhaustive = exhaustive
        self.isolated = False

    def tasks(self, tier, seed):
        return [('enum', c, None) for c in self.chunks(tier, seed)]

    def bound(self, tier):
        return self._bound[tier]


class MachineCheck(HypCheck):
    """A check driven by a Hypothesis rule-based state machine.

    ``machine(st, target)`` returns a RuleBasedStateMachine subclass whose
    rules record discrepancies in ``st`` (case = the step log so far) and
    which raises only when ``target`` is a bucket kind that was just hit
    (used for shrinking).  ``run_case(case, st)`` re-executes a step log
    directly, bypassing Hypothesis."""

    kind = 'state-machine'

    def __init__(self, name, machine, run_case, budget, rule, steps=40):
        HypCheck.__init__(self, name, None, run_case, budget, rule)
        self.machine = machine
        self.steps = steps

    def bound(self, tier):
        shards, n = self.budget[tier]
        return '%d shards x %d runs x <=%d steps' % (shards, n, self.steps)


def _machine_settings(n, steps, shrink):
    from hypothesis import HealthCheck, Phase, settings
    phases = [Phase.generate, Phase.shrink] if shrink else [Phase.generate]
    return settings(max_examples=n, stateful_step_count=steps,
                    database=None, deadline=None, derandomize=False,
                    report_multiple_bugs=False,
                    suppress_health_check=list(HealthCheck),
                    phases=phases, print_blob=False)


def guarded(run, case, st):
    """Run ``run(case, st)``; an exception escaping from inside pydiffx is a
    recorded violation, any other exception is a harness error."""
    try:
        run(case, st)
    except sut.ReadBudgetExceeded:
        st.violation('no-termination:read-budget',
                     'the reader exceeded its read() budget', case)
    except Exception as e:
        where = sut.innermost_pydiffx_frame(e)

        if where == ('?', '?'):
            raise

        st.violation('stray-exception:%s@%s:%s'
                     % (type(e).__name__, where[0], where[1]),
                     '%s: %s' % (type(e).__name__, e), case)


_fs_ctx = None


def start_isolation_server():
    """Start this process's forkserver on first use (every worker has its
    own: a forkserver can only be used by the process that started it)."""
    global _fs_ctx

    if _fs_ctx is None:
        _fs_ctx = multiprocessing.get_context('forkserver')
        _fs_ctx.set_forkserver_preload(['dxv.isolated'])
        from multiprocessing import forkserver
        forkserver.ensure_running()

    return _fs_ctx


def run_isolated(run, case, st):
    """Run ``run(case, st)`` (a module-level function) in a pristine process:
    a child of a forkserver that imported the library but never called it.
    Module- or class-level state the library may keep therefore cannot leak
    in from what this worker did before, and a finding that depends on such
    state is reproducible from its case alone."""
    ctx = start_isolation_server()
    parent, child = ctx.Pipe(duplex=False)
    proc = ctx.Process(target=_isolated_entry,
                       args=(run.__module__, run.__qualname__, case, child))
    # pool workers are daemonic and would be refused children; the helper
    # is joined right below, so nothing outlives the case
    me = multiprocessing.current_process()
    was = me._config.get('daemon')
    me._config['daemon'] = False

    try:
        proc.start()
    finally:
        me._config['daemon'] = was

    child.close()

    try:
        status, buckets, classes, excluded = parent.recv()
    except EOFError:
        proc.join()
        raise sut.HarnessError('isolated case produced no result (exit %r)'
                               % proc.exitcode)

    proc.join()

    if status == 'error':
        raise sut.HarnessError('isolated case failed:\n%s' % buckets)

    for kind, b in buckets.items():
        st.violation(kind, b['detail'], case)
        st.buckets[kind]['count'] += b['count'] - 1

    st.classes.update(classes)
    st.excluded.update(excluded)


def _isolated_entry(module, name, case, conn):
    from dxv import isolated
    isolated.main(module, name, case, conn)


# ---------------------------------------------------------------------------
# Workers
# ---------------------------------------------------------------------------

_CHECKS = {}


def _hyp_settings(n, shrink):
    from hypothesis import HealthCheck, Phase, settings
    phases = [Phase.generate, Phase.shrink] if shrink else [Phase.generate]
    return settings(max_examples=n, database=None, deadline=None,
                    derandomize=False, report_multiple_bugs=False,
                    suppress_health_check=list(HealthCheck),
                    phases=phases, print_blob=False)


def _jobs_of(tasks, nproc):
    """Group tasks into jobs (one short-lived process each): a Hypothesis
    shard is a job of its own, enumeration chunks of one check are batched
    so that forking stays cheap."""
    jobs = []
    enum = collections.OrderedDict()

    for name, t in tasks:
        if t[0] == 'hyp':
            jobs.append([(name, t)])
        else:
            enum.setdefault(name, []).append((name, t))

    for name, lst in enum.items():
        # neighbouring chunks tend to cost alike: deal them out in turn
        njobs = min(len(lst), nproc * 8)

        for j in range(njobs):
            jobs.append(lst[j::njobs])

    return jobs       # Hypothesis shards (the long ones) first


def _job_child(conn, job):
    out = []

    try:
        for arg in job:
            out.append(_run_task(arg))
    except BaseException:
        out.append((job[0][0], None, traceback.format_exc(), 0))

    try:
        conn.send(out)
    finally:
        conn.close()


CRASH_SIGNALS = {-11: 'SIGSEGV', -6: 'SIGABRT', -7: 'SIGBUS', -4: 'SIGILL',
                 -8: 'SIGFPE'}


def _run_jobs(jobs, nproc):
    """Run every job in a process of its own, at most ``nproc`` at a time,
    and yield the task results.  A process that dies without a result (killed
    for memory, crashed interpreter) does not hang the run: its tasks are
    retried one per process, and a task that dies twice is reported as a
    harness error."""
    from multiprocessing import connection
    ctx = multiprocessing.get_context('fork')
    queue = collections.deque((job, 0) for job in jobs)
    running = {}

    try:
        while queue or running:
            while queue and len(running) < nproc:
                job, tries = queue.popleft()
                r, w = ctx.Pipe(duplex=False)
                p = ctx.Process(target=_job_child, args=(w, job))
                p.start()
                w.close()
                running[r] = (p, job, tries)

            for r in connection.wait(list(running), timeout=5):
                p, job, tries = running.pop(r)

                try:
                    res = r.recv()
                except (EOFError, OSError):
                    res = None

                r.close()
                p.join()

                if res is not None:
                    for x in res:
                        yield x
                elif len(job) > 1:
                    for arg in job:
                        queue.append(([arg], tries))
                elif tries < 1:
                    queue.append((job, tries + 1))
                elif p.exitcode in CRASH_SIGNALS:
                    # the interpreter itself crashed, twice, on this task:
                    # nothing in the (pure Python) harness can do that
                    st = Stats()
                    st.violation(
                        'interpreter-crash:%s' % CRASH_SIGNALS[p.exitcode],
                        'the process running this task died of %s twice'
                        % CRASH_SIGNALS[p.exitcode],
                        {'crashed_task': [job[0][0], list(job[0][1])]})
                    yield (job[0][0], st, None, 0)
                else:
                    yield (job[0][0], None,
                           'worker process died twice (exit code %r) while '
                           'running task %r' % (p.exitcode, job[0][1]), 0)
    finally:
        for r, (p, _job, _tries) in running.items():
            p.terminate()
            p.join()
            r.close()


def _run_task(arg):
    import warnings

    try:
        from hypothesis.errors import HypothesisWarning
        warnings.filterwarnings('ignore', category=HypothesisWarning)
    except ImportError:
        pass

    name, task = arg
    check = _CHECKS[name]
    st = Stats()
    t0 = time.time()

    try:
        if task[0] == 'hyp' and check.kind == 'state-machine':
            import hypothesis
            from hypothesis.stateful import run_state_machine_as_test
            _, shard_seed, n = task
            cls = hypothesis.seed(shard_seed)(check.machine(st, None))
            run_state_machine_as_test(
                cls, settings=_machine_settings(n, check.steps, False))

            for b in st.buckets.values():
                b['shard'] = [shard_seed, n]
        elif task[0] == 'hyp':
            import hypothesis
            from hypothesis import given
            _, shard_seed, n = task

            @hypothesis.seed(shard_seed)
            @_hyp_settings(n, shrink=False)
            @given(check.strategy())
            def test(case):
                guarded(check.run_case, case, st)

            test()

            for b in st.buckets.values():
                b['shard'] = [shard_seed, n]
        else:
            try:
                check.run_chunk(task[1], st)
            except Exception as e:
                # an exception escaping from inside the library while an
                # enumeration runs is a finding, not a harness error
                where = sut.innermost_pydiffx_frame(e)

                if where == ('?', '?'):
                    raise

                st.violation('stray-exception:%s@%s:%s'
                             % (type(e).__name__, where[0], where[1]),
                             '%s: %s (chunk %r)' % (type(e).__name__, e,
                                                    task[1]),
                             {'chunk': task[1]})
    except BaseException:
        return name, None, traceback.format_exc(), time.time() - t0

    return name, st, None, time.time() - t0


class _Found(Exception):
    pass


def shrink_bucket(check, kind, shard, cap):
    """Re-run the shard that found ``kind`` with a test failing for that
    bucket only and let Hypothesis shrink it.  Returns (case, detail) or
    None."""
    import hypothesis
    from hypothesis import given
    shard_seed, n = shard

    if check.kind == 'state-machine':
        return _shrink_machine(check, kind, shard_seed, n)

    state = {'best': None, 'after': 0}

    @hypothesis.seed(shard_seed)
    @_hyp_settings(n, shrink=True)
    @given(check.strategy())
    def test(case):
        st = Stats()
        guarded(check.run_case, case, st)

        if state['best'] is not None:
            state['after'] += 1

        if kind in st.buckets:
            d = digest(case)

            if (state['after'] > cap and state['best'] is not None and
                    d != state['best'][2]):
                # Shrink budget used up: keep failing only for the best case
                # so that Hypothesis finishes at once.
                return

            state['best'] = (case, st.buckets[kind]['detail'], d)
            raise _Found()

    try:
        test()
    except _Found:
        pass
    except BaseException:
        pass

    if state['best'] is None:
        return None

    return state['best'][0], state['best'][1]


def _shrink_machine(check, kind, shard_seed, n):
    import hypothesis
    from hypothesis.stateful import run_state_machine_as_test
    st = Stats()
    cls = hypothesis.seed(shard_seed)(check.machine(st, kind))

    try:
        run_state_machine_as_test(
            cls, settings=_machine_settings(n, check.steps, True))
    except BaseException:
        pass

    last = st.notes.get('last_target_hit')

    if last is None:
        return None

    return from_jsonable(last['case']), last['detail']


# ---------------------------------------------------------------------------
# Known findings
# ---------------------------------------------------------------------------

def load_known():
    """{(property, key): text} for the open entries of known_findings.txt."""
    known = {}

    if not os.path.exists(KNOWN_FILE):
        return known

    with open(KNOWN_FILE) as fp:
        for line in fp:
            line = line.strip()

            if not line.startswith('open:'):
                continue

            parts = line[len('open:'):].split()
            fields = dict(p.split('=', 1) for p in parts[:2] if '=' in p)
            text = ' '.join(parts[2:])

            if 'property' in fields and 'key' in fields:
                known[(fields['property'], fields['key'])] = text

    return known


# ---------------------------------------------------------------------------
# Running a property
# ---------------------------------------------------------------------------

def run_property(prop, module, tier, seed, only=None, out=sys.stdout):
    t0 = time.time()
    checks = [c for c in module.checks() if only is None or c.name in only]

    if not checks:
        raise sut.HarnessError('no check selected for %s' % prop)

    known = {k[1]: v for k, v in load_known().items() if k[0] == prop}
    printed_known = set()

    # 1. replay the committed inputs of the open known findings first
    by_name = {c.name: c for c in module.checks()}

    for key, text in sorted(known.items()):
        path = os.path.join(FINDINGS_DIR, '%s-%s.json' % (prop, key))

        if not os.path.exists(path):
            continue

        with open(path) as fp:
            rec = json.load(fp)

        check = by_name.get(rec['check'])

        if check is None or check.run_case is None:
            continue

        st = Stats()
        guarded(check.run_case, from_jsonable(rec['case']), st)

        if key in st.buckets:
            out.write('KNOWN-FINDING: property=%s %s\n' % (prop, text))
            printed_known.add(key)
        else:
            out.write('note: known finding %s/%s did not reproduce from its '
                      'committed input\n' % (prop, key))

        for kind, b in st.buckets.items():
            if kind != key and kind not in known:
                # the committed input now shows something else
                pass

    # 2. the search
    _CHECKS.clear()
    tasks = []

    for c in checks:
        _CHECKS[c.name] = c

        for t in c.tasks(tier, seed):
            tasks.append((c.name, t))

    merged = {c.name: Stats() for c in checks}
    errors = []
    nproc = min(NPROC, max(1, len(tasks)))

    if nproc == 1 or os.environ.get('VERIF_SERIAL'):
        results = map(_run_task, tasks)
    else:
        results = _run_jobs(_jobs_of(tasks, nproc), nproc)

    for name, st, err, _dt in results:
        if err is not None:
            errors.append((name, err))
        else:
            merged[name].merge(st)

    if errors:
        for name, err in errors[:3]:
            sys.stderr.write('harness error in check %s:\n%s\n' % (name, err))

        raise sut.HarnessError('%d task(s) failed' % len(errors))

    # 3. triage of buckets: known findings vs violations
    violations = []
    known_hits = collections.Counter()

    for c in checks:
        st = merged[c.name]

        for kind in sorted(st.buckets):
            b = st.buckets[kind]

            if kind in known:
                known_hits[kind] += b['count']

                if kind not in printed_known:
                    out.write('KNOWN-FINDING: property=%s %s\n'
                              % (prop, known[kind]))
                    printed_known.add(kind)

                continue

            violations.append((c, kind, b))

    # 4. shrink and write replay files
    replay_paths = []
    cap = 1500 if tier == 'quick' else 8000
    shrink_deadline = time.time() + (90 if tier == 'quick' else 600)

    for i, (c, kind, b) in enumerate(violations):
        case = b['case']
        detail = b['detail']
        shrunk = False

        if (c.kind in ('hypothesis', 'state-machine') and b.get('shard') and
                i < 6 and
                time.time() < shrink_deadline and
                os.environ.get('VERIF_NO_SHRINK', '0') in ('', '0')):
            res = shrink_bucket(c, kind, b['shard'], cap)

            if res is not None:
                case = to_jsonable(res[0])
                detail = res[1]
                shrunk = True

        os.makedirs(REPLAY_DIR, exist_ok=True)
        path = os.path.join(REPLAY_DIR, '%s-%s-seed%d-%d.json'
                            % (prop, c.name, seed, i))

        with open(path, 'w') as fp:
            json.dump({
                'property': prop,
                'check': c.name,
                'kind': kind,
                'detail': detail,
                'count_in_run': b['count'],
                'shrunk': shrunk,
                'case': case,
            }, fp, indent=1, sort_keys=True)

        replay_paths.append(path)
        out.write('VIOLATION property=%s replay=%s\n' % (prop, path))
        out.write('  check=%s kind=%s hits=%d\n  %s\n'
                  % (c.name, kind, b['count'], detail[:600]))

    # 5. evidence
    wall = time.time() - t0
    write_evidence(prop, module, tier, seed, checks, merged, known_hits,
                   len(violations), wall)

    total = sum(s.evals for s in merged.values())
    nt = sum(s.distinct_nontrivial for s in merged.values())
    out.write('%s tier=%s seed=%d: %d cases, %d distinct non-trivial, '
              '%d violation bucket(s), %d known-finding hit(s), %.1fs\n'
              % (prop, tier, seed, total, nt, len(violations),
                 sum(known_hits.values()), wall))
    out.flush()

    return 1 if violations else 0


def write_evidence(prop, module, tier, seed, checks, merged, known_hits,
                   nviol, wall):
    per_check = {}
    samples = []
    rules = []

    for c in checks:
        st = merged[c.name]
        per_check[c.name] = {
            'driver': c.kind,
            'evaluations': st.evals,
            'distinct_nontrivial': st.distinct_nontrivial,
            'rule': c.rule,
            'bound': c.bound(tier),
            'exhaustive': bool(c.exhaustive),
            'classes': dict(sorted(st.classes.items())),
            'excluded': dict(sorted(st.excluded.items())),
            'violation_buckets': {k: b['count']
                                  for k, b in sorted(st.buckets.items())},
        }

        if st.notes:
            per_check[c.name]['notes'] = st.notes

        for s in st.samples[:3]:
            samples.append({'check': c.name, 'case': s})

        rules.append('[%s] %s' % (c.name, c.rule))

    ev = {
        'property_id': prop,
        'tier': tier,
        'seed': seed,
        'level': 'exploration',
        'coverage': {
            'evaluations': sum(s.evals for s in merged.values()),
            'distinct_nontrivial': sum(s.distinct_nontrivial
                                       for s in merged.values()),
            'rule': ' || '.join(rules),
            'samples': samples,
            'exhaustive': all(c.exhaustive for c in checks),
            'exhaustive_checks': [c.name for c in checks if c.exhaustive],
            'checks': per_check,
            'known_finding_hits': dict(known_hits),
            'repo': sut.REPO,
        },
        'assumptions': list(getattr(module, 'ASSUMPTIONS', [])),
        'wall_s': round(wall, 2),
        'violations': nviol,
    }
    os.makedirs(EVIDENCE_DIR, exist_ok=True)
    path = os.path.join(EVIDENCE_DIR, '%s.json' % prop)
    tmp = path + '.tmp'

    with open(tmp, 'w') as fp:
        json.dump(ev, fp, indent=1, sort_keys=True)
        fp.write('\n')

    os.replace(tmp, path)


def _retuple(v):
    """JSON turned the tuples of a task description into lists."""
    if isinstance(v, list):
        return tuple(_retuple(x) for x in v)

    return v


def run_replay(prop, module, path, out=sys.stdout):
    with open(path) as fp:
        rec = json.load(fp)

    by_name = {c.name: c for c in module.checks()}
    check = by_name.get(rec['check'])

    if check is None or check.run_case is None:
        raise sut.HarnessError('check %r cannot replay' % rec.get('check'))

    st = Stats()
    case = from_jsonable(rec['case'])

    if isinstance(case, dict) and 'crashed_task' in case:
        # an interpreter crash: run the task again, in a process of its own
        _CHECKS.clear()
        _CHECKS.update(by_name)
        name, task = case['crashed_task']
        task = tuple(_retuple(task))

        for _name, st2, err, _dt in _run_jobs([[(name, task)]], 1):
            if err is not None:
                raise sut.HarnessError(err)

            st.merge(st2)
    else:
        guarded(check.run_case, case, st)

    known = {k[1]: v for k, v in load_known().items() if k[0] == prop}
    bad = [k for k in st.buckets if k not in known]

    for k in st.buckets:
        if k in known:
            out.write('KNOWN-FINDING: property=%s %s\n' % (prop, known[k]))

    if bad:
        out.write('VIOLATION property=%s replay=%s\n' % (prop, path))

        for k in bad:
            out.write('  kind=%s\n  %s\n' % (k, st.buckets[k]['detail'][:600]))

        return 1

    out.write('%s replay %s: no violation\n' % (prop, path))
    return 0
