"""Independent model of the DiffX 1.0 specification (the oracle side).

Written from docs/spec/*.rst and from the property statements.  Imports
nothing from pydiffx.  Trusted base: this file, CPython's codecs/json/re.
"""

import codecs
import encodings.aliases
import json
import os
import re

# ---------------------------------------------------------------------------
# 3.1 Section ids and the successor relation
# ---------------------------------------------------------------------------

IDS = ('diffx', '.preamble', '.meta', '.change', '..preamble', '..meta',
       '..file', '...meta', '...diff')

TABLE = {
    'diffx': ('.preamble', '.meta', '.change'),
    '.preamble': ('.meta', '.change'),
    '.meta': ('.change',),
    '.change': ('..preamble', '..meta', '..file'),
    '..preamble': ('..meta', '..file'),          # erratum 2: '..meta' added
    '..meta': ('.change', '..file'),             # erratum 1: '..change'
    '..file': ('...meta',),
    '...meta': ('...diff', '..file', '.change'),
    '...diff': ('..file', '.change'),
}

CONTAINERS = ('diffx', '.change', '..file')
NAMES = ('diffx', 'preamble', 'meta', 'change', 'file', 'diff')


def illegal_step(ids):
    """Index of the first section that may not stand where it does (the
    first must be diffx, every later one a legal successor), else None."""
    prev = None

    for i, sid in enumerate(ids):
        if prev is None:
            if sid != 'diffx':
                return i
        elif sid not in TABLE.get(prev, ()):
            return i

        prev = sid

    return None


def kind_of(section_id):
    """'container', 'preamble', 'meta' or 'diff'."""
    name = section_id.lstrip('.')

    if name in ('diffx', 'change', 'file'):
        return 'container'

    return name


def level_of(section_id):
    return len(section_id) - len(section_id.lstrip('.'))


def _rst_state_tree(path):
    """Parse the "Section Order" state tree of section-format.rst."""
    with open(path) as fp:
        text = fp.read()

    start = text.index('following state tree')
    end = text.index('.. _spec-section-types:')
    tree = {}
    cur = None

    for line in text[start:end].splitlines():
        m = re.match(r'^(\s*)\* ``([.a-z]+)``\s*$', line)

        if not m:
            continue

        if len(m.group(1)) == 0:
            cur = m.group(2)
            tree[cur] = []
        else:
            tree[cur].append(m.group(2))

    return tree


_self_checked = False


def self_check():
    """Start-up tests of the model itself (exit 2 on failure)."""
    global _self_checked

    if _self_checked:
        return

    from dxv.sut import HarnessError, REPO

    # table vs the rst state tree, modulo exactly the two errata
    rst = os.path.join(REPO, 'docs', 'spec', 'section-format.rst')

    if os.path.exists(rst):
        try:
            tree = _rst_state_tree(rst)
        except ValueError:
            tree = None

        if tree:
            fixed = {k: list(v) for k, v in tree.items()}

            if '..meta' in fixed:
                fixed['..meta'] = ['.change' if x == '..change' else x
                                   for x in fixed['..meta']]

            if '..preamble' in fixed and '..meta' not in fixed['..preamble']:
                fixed['..preamble'].append('..meta')

            mine = {k: sorted(v) for k, v in TABLE.items()}
            theirs = {k: sorted(v) for k, v in fixed.items()}

            if mine != theirs:
                raise HarnessError('transition table differs from the '
                                   'specification state tree: %r vs %r'
                                   % (mine, theirs))

    # grammar: the spec's own examples
    good = [b'#diffx: version=1.0', b'#.change:',
            b'#..meta: length=100, my-option=value, '
            b'another-option=another-value']
    bad = [b'#diffx::', b'.preamble', b'#.change', b'#....diff:',
           b'#diffx: 1.0', b'#..meta: option=100+',
           b'#..meta: option=value,option2=value',
           b'#..meta: option=value, option2=value:',
           b'#..meta: _option=value', b'#..meta: my-option = value']

    for h in good:
        if parse_header(h) is None:
            raise HarnessError('grammar rejects spec example %r' % h)

    for h in bad:
        if parse_header(h) is not None:
            raise HarnessError('grammar accepts spec counter-example %r' % h)

    # serializer / parser agree on a small battery
    prog = {
        'encoding': 'utf-8',
        'calls': [
            ['preamble', {'text': 'héllo\nworld'}],
            ['meta', {'metadata': {'a': [1, 'x'], 'b': None}}],
            ['change', {'encoding': 'utf-16'}],
            ['preamble', {'text': 'x\r\ny', 'indent': 2,
                          'mimetype': 'text/markdown'}],
            ['file', {}],
            ['meta', {'metadata': {'path': 'f'}, 'encoding': 'latin-1'}],
            ['diff', {'content': b'--- a\n+++ b\n', 'diff_type': 'text'}],
            ['change', {}],
            ['preamble', {'text': 'inherits main again é'}],
            ['file', {'encoding': 'cp037'}],
            ['meta', {'metadata': {'k': 'é'}}],
            ['file', {}],
            ['meta', {'metadata': {'sibling': 'inherits the change'}}],
        ],
    }
    data = ref_serialize(prog)
    recs, err = ref_parse(data)
    exp = expected_records(prog)

    if err is not None or len(recs) != len(exp):
        raise HarnessError('reference parser rejects reference output: %r'
                           % (err,))

    for r, e in zip(recs, exp):
        r = dict(r, options={k: v for k, v in r['options'].items()
                              if k != 'length'})

        for k in ('section', 'level', 'options', 'content'):
            if r[k] != e[k]:
                raise HarnessError('reference parser/serializer disagree on '
                                   '%s: %r vs %r' % (k, r[k], e[k]))

    _self_checked = True


# ---------------------------------------------------------------------------
# 3.2 Header grammar
# ---------------------------------------------------------------------------

KEY_RE = re.compile(rb'[A-Za-z][A-Za-z0-9_-]*')
VALUE_RE = re.compile(rb'[A-Za-z0-9/._-]+')
HEADER_RE = re.compile(
    rb'#(\.{0,3})([a-z]+):'
    rb'(?: ([A-Za-z][A-Za-z0-9_-]*=[A-Za-z0-9/._-]+'
    rb'(?:, [A-Za-z][A-Za-z0-9_-]*=[A-Za-z0-9/._-]+)*))?')
INT_RE = re.compile(r'-?[0-9]+')
SLIVER_RE = re.compile(r'[0-9_-]+')


def parse_header(line):
    """Full-match a header line (without its line terminator).

    Returns (section_id, [(key, value_str), ...]) or None.  The section name
    is any [a-z]+ here; whether the id is one of the nine legal ones is a
    separate question (legal_id)."""
    m = HEADER_RE.fullmatch(line)

    if not m:
        return None

    sid = (m.group(1) + m.group(2)).decode('ascii')
    pairs = []

    if m.group(3):
        for pair in m.group(3).split(b', '):
            k, v = pair.split(b'=', 1)
            pairs.append((k.decode('ascii'), v.decode('ascii')))

    return sid, pairs


def convert_value(v):
    """Spec reading of an option value.

    Returns a tuple of acceptable renderings: (int,) for plain integers,
    (str,) for anything containing a character outside [0-9_-], and both for
    the undecided sliver (``1_0``, ``--1``, ``-``)."""
    if INT_RE.fullmatch(v):
        try:
            return (int(v),)
        except ValueError:
            # CPython refuses to convert absurdly long digit strings
            return (v,)

    if not SLIVER_RE.fullmatch(v):
        return (v,)

    alts = [v]

    try:
        alts.append(int(v))
    except ValueError:
        pass

    return tuple(alts)


def options_match(actual, pairs):
    """Does the reader's options dict equal the spec reading of pairs?"""
    if not isinstance(actual, dict):
        return False

    want = {}

    for k, v in pairs:
        want[k] = convert_value(v)

    if set(actual) != set(want):
        return False

    for k, alts in want.items():
        a = actual[k]

        if not any(type(a) is type(x) and a == x for x in alts):
            return False

    return True


def options_dict(pairs):
    """Definite options dict for pairs without sliver values."""
    return {k: convert_value(v)[0] for k, v in pairs}


# ---------------------------------------------------------------------------
# Codec helpers
# ---------------------------------------------------------------------------

def nl_bytes(kind, enc):
    """BOM-free encoding of LF / CRLF in ``enc`` (ascii when None)."""
    e = codecs.getincrementalencoder(enc or 'ascii')()
    e.encode('x')
    return e.encode('\n' if kind == 'unix' else '\r\n')


def nl_str(kind):
    return '\n' if kind == 'unix' else '\r\n'


def detect_kind(content, lf, crlf):
    """First-line detection: read up to the first LF, dos iff preceded by CR.
    Works on str (lf='\\n') and on bytes (encoded newlines)."""
    i = content.find(lf)

    if i != -1 and content[:i + len(lf)].endswith(crlf):
        return 'dos'

    return 'unix'


def split_keep(data, nl):
    """Split bytes on nl keeping the terminators (last may be unterminated)."""
    if not nl:
        raise ValueError('empty newline')

    out = []
    pos = 0

    while True:
        i = data.find(nl, pos)

        if i == -1:
            if pos < len(data):
                out.append(data[pos:])

            return out

        out.append(data[pos:i + len(nl)])
        pos = i + len(nl)


class Unencodable(Exception):
    """The model predicts the writer must reject this call."""


# ---------------------------------------------------------------------------
# 3.3 Reference serializer
# ---------------------------------------------------------------------------

def header_line(sid, options):
    """'#id:' + options sorted by key, None dropped, ', '-joined, LF."""
    items = sorted((k, v) for k, v in options.items() if v is not None)
    s = '#%s:' % sid

    if items:
        s += ' ' + ', '.join('%s=%s' % (k, v) for k, v in items)

    return s.encode('ascii') + b'\n'


def json_texts(metadata):
    """The metadata renderings the specification allows (sorted keys,
    4-space indent; ASCII escaping is not fixed by the spec)."""
    a = json.dumps(metadata, indent=4, sort_keys=True,
                   separators=(',', ': '), ensure_ascii=True)
    b = json.dumps(metadata, indent=4, sort_keys=True,
                   separators=(',', ': '), ensure_ascii=False)
    return [a] if a == b else [a, b]


class Walker(object):
    """The container state a sequence of calls goes through."""

    def __init__(self, main_encoding):
        self.prev = 'diffx'
        self.level = 0
        self.enc = [main_encoding]

    def section_id(self, op):
        if op == 'change':
            return '.change'

        if op == 'file':
            return '..file'

        return '.' * (self.level + 1) + op

    def accepts(self, op):
        return self.section_id(op) in TABLE.get(self.prev, ())

    def advance(self, op, kwargs):
        """Update the state for an accepted call; return (sid, eff_enc)."""
        sid = self.section_id(op)
        own = kwargs.get('encoding')

        if op == 'change':
            self.level = 1
            self.enc = [self.enc[0], own or self.enc[0]]
            eff = None
        elif op == 'file':
            self.level = 2
            self.enc = self.enc[:2] + [own or self.enc[1]]
            eff = None
        elif op == 'diff':
            eff = own or None
        else:
            eff = own or self.enc[-1]

        self.prev = sid
        return sid, eff


def content_segment(op, sid, kwargs, eff, omit_detected_le=False):
    """All acceptable (header + content) byte strings for a content call.

    Raises Unencodable when the text cannot be encoded in its codec."""
    le = kwargs.get('line_endings')
    own = kwargs.get('encoding')
    options = {'encoding': own}

    if op == 'preamble':
        texts = [kwargs['text']]
        indent = kwargs.get('indent', 4)
        options['indent'] = indent
        options['mimetype'] = kwargs.get('mimetype')
    elif op == 'meta':
        texts = json_texts(kwargs['metadata'])

        if le == 'dos':
            # declared DOS line endings: the lines of the JSON document end
            # in CRLF (newlines inside JSON strings are always escaped)
            texts = [t.replace('\n', '\r\n') for t in texts]

        indent = None
        options['format'] = 'json'
    else:
        texts = [kwargs['content']]
        indent = None
        options['type'] = kwargs.get('diff_type')

    out = []

    for content in texts:
        if op == 'diff':
            lf, crlf = nl_bytes('unix', eff), nl_bytes('dos', eff)
            kind = le or detect_kind(content, lf, crlf)
            nl = lf if kind == 'unix' else crlf
            data = content
        else:
            kind = le or detect_kind(content, '\n', '\r\n')

            try:
                nl = nl_bytes(kind, eff)
                data = content.encode(eff)
            except UnicodeError:
                if len(texts) > 1:
                    continue      # another rendering may be encodable

                raise Unencodable()

        if not data.endswith(nl):
            data += nl

        if indent:
            data = b''.join(b' ' * indent + ln for ln in split_keep(data, nl))

        opts = dict(options, length=len(data))

        if (op != 'meta' or le is not None) and \
                not (omit_detected_le and le is None):
            # (a foreign producer may leave out line_endings when the
            # first line shows it)
            opts['line_endings'] = kind

        out.append(header_line(sid, opts) + data)

    if not out:
        raise Unencodable()

    return out


def ref_segments(program, omit_detected_le=False):
    """[[alternative bytes, ...], ...] -- one entry per section."""
    main = program.get('encoding', 'utf-8')
    w = Walker(main)
    segs = [[header_line('diffx', {'encoding': main, 'version': '1.0'})]]

    for op, kwargs in program['calls']:
        sid, eff = w.advance(op, kwargs)

        if op in ('change', 'file'):
            segs.append([header_line(sid,
                                     {'encoding': kwargs.get('encoding')})])
        else:
            segs.append(content_segment(op, sid, kwargs, eff,
                                        omit_detected_le))

    return segs


def ref_serialize(program, omit_detected_le=False):
    return b''.join(alts[0]
                    for alts in ref_segments(program, omit_detected_le))


def match_segments(data, segs):
    """None if data is a concatenation of one alternative per segment, else
    (segment index, offset)."""
    pos = 0

    for i, alts in enumerate(segs):
        for a in alts:
            if data.startswith(a, pos):
                pos += len(a)
                break
        else:
            return i, pos

    if pos != len(data):
        return len(segs), pos

    return None


def expected_records(program):
    """What reading the serialisation of ``program`` must give (C01/C03):
    list of dicts with section, level, options, content, line, kind."""
    main = program.get('encoding', 'utf-8')
    w = Walker(main)
    recs = [{'section': 'diffx', 'level': 0, 'kind': 'container',
             'options': ({'encoding': main, 'version': '1.0'}
                         if main is not None else {'version': '1.0'}),
             'content': None}]

    for op, kwargs in program['calls']:
        sid, eff = w.advance(op, kwargs)
        rec = {'section': sid, 'level': level_of(sid), 'kind': kind_of(sid),
               'content': None}
        own = kwargs.get('encoding')
        opts = {}

        if own is not None:
            opts['encoding'] = own

        if op in ('change', 'file'):
            rec['options'] = opts
            recs.append(rec)
            continue

        le = kwargs.get('line_endings')

        if op == 'preamble':
            text = kwargs['text']
            kind = le or detect_kind(text, '\n', '\r\n')
            nl = nl_str(kind)
            rec['content'] = text if text.endswith(nl) else text + nl
            opts['indent'] = kwargs.get('indent', 4)
            opts['line_endings'] = kind

            if kwargs.get('mimetype') is not None:
                opts['mimetype'] = kwargs['mimetype']
        elif op == 'meta':
            rec['content'] = kwargs['metadata']
            opts['format'] = 'json'

            if le is not None:
                opts['line_endings'] = le
        else:
            content = kwargs['content']
            lf, crlf = nl_bytes('unix', eff), nl_bytes('dos', eff)
            kind = le or detect_kind(content, lf, crlf)
            nl = lf if kind == 'unix' else crlf
            rec['content'] = content if content.endswith(nl) else content + nl
            opts['line_endings'] = kind

            if kwargs.get('diff_type') is not None:
                opts['type'] = kwargs['diff_type']

        rec['options'] = opts          # 'length' is judged separately
        recs.append(rec)

    return recs


# ---------------------------------------------------------------------------
# 3.4 Reference reading of content and strict reference parser
# ---------------------------------------------------------------------------

class Reject(Exception):
    def __init__(self, reason):
        Exception.__init__(self, reason)
        self.reason = reason


def is_text_codec(name):
    if not isinstance(name, str):
        return False

    try:
        info = codecs.lookup(name)
    except (LookupError, TypeError, ValueError):
        return False

    return bool(getattr(info, '_is_text_encoding', True))


def ref_content(kind, raw, options, inherited):
    """The specification's reading of one content section.

    kind: 'preamble' | 'meta' | 'diff'; raw: exactly the framed bytes;
    options: converted options dict; inherited: nearest declared container
    encoding (ignored for diffs).

    Returns (value, number of logical lines, line-ending kind); raises
    Reject."""
    if not raw:
        raise Reject('empty content')

    enc = options.get('encoding')

    if enc is None:
        enc = None if kind == 'diff' else inherited
    elif not is_text_codec(enc):
        raise Reject('unsupported encoding')

    le = options.get('line_endings')

    if le is not None and le not in ('unix', 'dos'):
        raise Reject('bad line_endings')

    if kind == 'meta' and options.get('format', 'json') != 'json':
        raise Reject('bad format')

    try:
        lf, crlf = nl_bytes('unix', enc), nl_bytes('dos', enc)
    except (UnicodeError, LookupError):
        raise Reject('codec cannot encode a newline')

    if not lf or not crlf:
        # (idna / punycode buffer their input: no newline bytes at all)
        raise Reject('codec cannot encode a newline')

    if le is None:
        le = detect_kind(raw, lf, crlf)

    nl = lf if le == 'unix' else crlf
    lines = split_keep(raw, nl)
    indent = options.get('indent') if kind == 'preamble' else None

    if indent is not None:
        if type(indent) is not int or indent < 0:
            raise Reject('bad indent')

        if indent:
            stripped = []

            for ln in lines:
                n = 0

                while n < indent and n < len(ln) and ln[n:n + 1] == b' ':
                    n += 1

                stripped.append(ln[n:])

            lines = stripped

    data = b''.join(lines)

    if not data.endswith(nl):
        raise Reject('no final newline')

    if kind == 'diff' or enc is None:
        value = data
    else:
        try:
            value = data.decode(enc)
        except (UnicodeError, ValueError):
            raise Reject('undecodable')

    if kind == 'meta':
        try:
            value = json.loads(value)
        except (ValueError, RecursionError):
            raise Reject('bad json')

    return value, len(lines), le


class RefError(Exception):
    """The file is not well-formed; line_lo..line_hi is the logical span of
    the offending section."""

    def __init__(self, reason, line_lo, line_hi, nrecords):
        Exception.__init__(self, reason)
        self.reason = reason
        self.line_lo = line_lo
        self.line_hi = line_hi
        self.nrecords = nrecords


def ref_parse(data):
    """Strict reference parser.  Returns (records, RefError or None).

    Each record: section, level, kind, line, options (converted; 'length'
    included), content, span=(header_start, content_start, content_end)."""
    recs = []
    pos = 0
    line = 0
    file_nl = None
    prev = None
    enc = [None]

    def fail(reason, lo, hi=None):
        return recs, RefError(reason, lo, lo if hi is None else hi, len(recs))

    while True:
        # skip empty lines
        while True:
            i = data.find(b'\n', pos)

            if i == -1:
                rest = data[pos:]

                if rest.strip(b'\r\n') == b'' or True:
                    # an unterminated last line carries no section
                    return recs, (None if not rest.strip() else
                                  RefError('unterminated header', line, line,
                                           len(recs)))

            raw_line = data[pos:i + 1]

            if raw_line in (b'\n', b'\r\n'):
                pos = i + 1
                continue

            break

        hstart = pos

        if file_nl is None:
            file_nl = b'\r\n' if raw_line.endswith(b'\r\n') else b'\n'

        if not raw_line.endswith(file_nl):
            return fail('header newline style changed', line)

        parsed = parse_header(raw_line[:-len(file_nl)])

        if parsed is None:
            return fail('malformed header', line)

        sid, pairs = parsed

        if sid not in IDS:
            return fail('illegal section id', line)

        if prev is None:
            if sid != 'diffx':
                return fail('first section must be diffx', line)
        elif sid not in TABLE[prev]:
            return fail('section out of order', line)

        options = {}

        for k, v in pairs:
            options[k] = convert_value(v)[0]

        pos = i + 1
        kind = kind_of(sid)
        rec = {'section': sid, 'level': level_of(sid), 'kind': kind,
               'line': line, 'options': options, 'content': None}

        if kind == 'container':
            own = options.get('encoding')

            if own is not None and not is_text_codec(own):
                return fail('unsupported encoding', line)

            if sid == 'diffx':
                if options.get('version') != '1.0':
                    return fail('unsupported version', line)

                enc = [own]
            else:
                # leave every container at this level or deeper; what is
                # left is the chain of enclosing containers
                enc = enc[:level_of(sid)]
                enc = enc + [own if own is not None else enc[-1]]

            rec['span'] = (hstart, pos, pos)
            line += 1
        else:
            length = options.get('length')

            if type(length) is not int or length < 0:
                return fail('missing or invalid length', line)

            raw = data[pos:pos + length]

            if len(raw) < length:
                return fail('content shorter than length', line,
                            line + 1 + raw.count(b'\n'))

            try:
                value, nlines, le = ref_content(kind, raw, options, enc[-1])
            except Reject as e:
                return fail(e.reason, line, line + 1 + raw.count(b'\n') + 1)

            rec['content'] = value
            rec['inherited'] = enc[-1]
            rec['nlines'] = nlines
            rec['line_endings'] = le
            rec['span'] = (hstart, pos, pos + length)
            pos += length
            line += 1 + nlines

        recs.append(rec)
        prev = sid


# ---------------------------------------------------------------------------
# 3.5 Codec catalogue
# ---------------------------------------------------------------------------

POOL = ('utf-8', 'ascii', 'latin-1', 'cp1252', 'cp037', 'utf-16',
        'utf-16-le', 'utf-16-be', 'utf-32', 'utf-32-le', 'utf-32-be',
        'shift_jis', 'gbk', 'big5', 'koi8-r')

_BATTERY = ['a', 'hello world', 'a\nb', 'x\r\ny\r\n', '\n', 'A1 _-./',
            'été', 'Жи', '中文', 'あ',
            'line one\nline two\n']

_SAMPLE_CHARS = (
    'abcxyzABZ019 _-./+#@:=,;!?\'"()[]{}<>\\|~`^&*%$\t'
    'éèüßñÅø£©µ'
    'ЖияБαβΩאשاب'
    'กข中文日本語あいアイ'
    '가나€–—‘’“”•…'
    'ĀŁŠžğış฿﻿\u0085 '
    'ੁഊ਍上਀\u000b\u000c\x00\x7f'
)

_catalogue = None


def _variants(name):
    out = {name}
    out.add(name.replace('_', '-'))
    out.add(name.replace('-', '_'))

    for v in list(out):
        out.add(v.upper())
        out.add(v.lower())
        out.add(v.title())

    return out


def _stateless(name):
    try:
        info = codecs.lookup(name)
    except Exception:
        return False

    if not getattr(info, '_is_text_encoding', True):
        return False

    def bomless(s):
        e = info.incrementalencoder()
        e.encode('x')
        return e.encode(s)

    try:
        enc_x = 'x'.encode(name)
        'x\n'.encode(name)
        '\r\n'.encode(name)
    except Exception:
        return False

    ok = 0

    for s in _BATTERY:
        try:
            es = s.encode(name)
        except UnicodeError:
            continue
        except Exception:
            return False

        try:
            if es.decode(name) != s:
                return False

            for t in _BATTERY:
                try:
                    t.encode(name)
                except UnicodeError:
                    continue

                if bomless(s) + bomless(t) != bomless(s + t):
                    return False

                # decoding the concatenation gives the concatenation
                if (s.encode(name) + bomless(t)).decode(name) != s + t:
                    return False
        except Exception:
            return False

        ok += 1

    return ok >= 4 and bool(enc_x)


def catalogue():
    """{canonical name: {'spellings': [...], 'lf':..., 'crlf':...,
    'bom': bool, 'alphabet': str}} -- computed, not hand-picked."""
    global _catalogue

    if _catalogue is not None:
        return _catalogue

    names = set()

    for k, v in encodings.aliases.aliases.items():
        names.add(k)
        names.add(v)

    for p in POOL:
        names.add(p)

    names.update(['utf-8-sig', 'utf_8_sig'])
    cat = {}
    stateless_cache = {}

    for base in sorted(names):
        for sp in sorted(_variants(base)):
            if not VALUE_RE.fullmatch(sp.encode('ascii', 'replace')):
                continue

            if SLIVER_RE.fullmatch(sp):
                continue        # purely numeric-looking: reported as int

            try:
                info = codecs.lookup(sp)
            except Exception:
                continue

            canon = info.name

            if canon not in stateless_cache:
                stateless_cache[canon] = _stateless(canon)

            if not stateless_cache[canon]:
                continue

            entry = cat.get(canon)

            if entry is None:
                lf = nl_bytes('unix', canon)
                crlf = nl_bytes('dos', canon)
                alphabet = ''.join(c for c in _SAMPLE_CHARS
                                   if _encodable(c, canon))
                entry = cat[canon] = {
                    'spellings': set(),
                    'lf': lf,
                    'crlf': crlf,
                    'bom': '\n'.encode(canon) != lf,
                    'alphabet': alphabet,
                }

            entry['spellings'].add(sp)

    for canon, entry in cat.items():
        entry['spellings'].add(canon)
        entry['spellings'] = sorted(
            s for s in entry['spellings']
            if VALUE_RE.fullmatch(s.encode('ascii')) and
            not SLIVER_RE.fullmatch(s))

    _catalogue = cat
    return cat


def _encodable(c, enc):
    try:
        return c.encode(enc).decode(enc) == c
    except Exception:
        return False


def alphabet_for(enc):
    """Characters of the shared sample that ``enc`` can encode."""
    return ''.join(c for c in _SAMPLE_CHARS if _encodable(c, enc))
