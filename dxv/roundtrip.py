"""Shared judging code for the writer -> reader checks (C01, C02, C04)."""

import io
import json

from dxv import sut, spec, gen


def write_program(program):
    """Run the program on the real streaming writer; returns bytes.
    Exceptions propagate."""
    ns = sut.load()
    stream = io.BytesIO()
    main = program.get('encoding', 'utf-8')

    if main == 'utf-8' and len(program['calls']) % 2 == 0:
        # the documented default
        writer = ns.DiffXWriter(stream)
    else:
        writer = ns.DiffXWriter(stream, encoding=main)

    for op, kw in program['calls']:
        gen.call_writer(writer, op, kw)

    return stream.getvalue()


def canon_json(v):
    """Type-strict canonical rendering of a JSON value."""
    return json.dumps(v, sort_keys=True, ensure_ascii=True)


CONTENT_KEY = {'preamble': 'text', 'meta': 'metadata', 'diff': 'diff'}


def record_content(rec, kind):
    return rec.get(CONTENT_KEY[kind])


def aligned_kind(content, enc):
    """First-line detection on code-unit boundaries (what a character-level
    reader of a fixed-width encoding sees)."""
    lf = spec.nl_bytes('unix', enc)
    crlf = spec.nl_bytes('dos', enc)
    unit = len(lf)
    start = 0

    # skip a BOM
    for bom in (b'\xff\xfe\x00\x00', b'\x00\x00\xfe\xff', b'\xff\xfe',
                b'\xfe\xff'):
        if len(bom) == unit and content.startswith(bom):
            start = unit
            break

    i = start

    while i + unit <= len(content):
        if content[i:i + unit] == lf:
            if content[:i + unit].endswith(crlf) and \
                    (i - start) % unit == 0 and i - unit >= start:
                return 'dos'

            return 'unix'

        i += unit

    return 'unix'


def compare_records(program, recs, st=None):
    """Compare reader records with what the program wrote.

    Returns None or (kind, detail)."""
    exp = spec.expected_records(program)

    if len(recs) != len(exp):
        return ('record-count',
                '%d records for %d written sections; ids %r'
                % (len(recs), len(exp), [r.get('section') for r in recs]))

    calls = [None] + program['calls']

    for i, (r, e) in enumerate(zip(recs, exp)):
        if r.get('section') != e['section'] or r.get('level') != e['level'] \
                or r.get('type') != e['section'].lstrip('.'):
            return ('wrong-section',
                    'record %d: %r/%r, expected %r' %
                    (i, r.get('section'), r.get('level'), e['section']))

        opts = dict(r.get('options') or {})
        want = dict(e['options'])
        content_exp = e['content']

        if e['kind'] != 'container':
            length = opts.pop('length', None)

            if type(length) is not int or length <= 0:
                return ('bad-length-option',
                        'record %d (%s): length=%r' % (i, e['section'],
                                                       length))

        if e['kind'] == 'diff':
            kw = calls[i][1]
            enc = kw.get('encoding')

            if (kw.get('line_endings') is None and enc is not None and
                    len(spec.nl_bytes('unix', enc)) > 1):
                content = kw['content']

                if aligned_kind(content, enc) != want['line_endings']:
                    # byte-level and character-level first-line detection
                    # disagree: accept the kind the header carries
                    got_kind = opts.get('line_endings')

                    if st is not None:
                        st.cls('ambiguous-detection')

                    if got_kind in ('unix', 'dos'):
                        nl = spec.nl_bytes(got_kind, enc)
                        want['line_endings'] = got_kind
                        content_exp = (content if content.endswith(nl)
                                       else content + nl)

        if opts != want or any(type(opts[k]) is not type(want[k])
                               for k in want):
            return ('wrong-options',
                    'record %d (%s): %r, expected %r' % (i, e['section'],
                                                         opts, want))

        if e['kind'] == 'container':
            continue

        got = record_content(r, e['kind'])

        if e['kind'] == 'meta':
            try:
                same = canon_json(got) == canon_json(content_exp)
            except (TypeError, ValueError):
                same = False
        else:
            same = type(got) is type(content_exp) and got == content_exp

        if not same:
            return ('wrong-content',
                    'record %d (%s): %r, expected %r' %
                    (i, e['section'], _short(got), _short(content_exp)))

    return None


def _short(v):
    s = repr(v)
    return s if len(s) < 300 else s[:300] + '...'


BOUNDARY_BLOCKS = (96, 1024, 4096, 8192, 65536)


def boundary_programs(block):
    """Deterministic programs whose first content line ends (CR, LF) at
    every offset around ``block`` bytes: for both line-ending kinds,
    declared or detected, indented or not, in a single- and a multi-byte
    codec, followed by a line that starts with a space or not."""
    out = []

    for off in (-2, -1, 0, 1):
        for le, declared in (('unix', False), ('dos', False), ('dos', True),
                             ('unix', True)):
            for indent in (0, 4):
                for nxt in (' lead', 'x'):
                    for enc, unit in (('utf-8', 1), ('utf-16-le', 2)):
                        n = (block + off) // unit
                        nl = '\n' if le == 'unix' else '\r\n'
                        text = 'L' * n + nl + nxt + nl + 'end'
                        kw = {'text': text, 'indent': indent,
                              'encoding': enc}
                        dkw = {'content': text.encode(enc),
                               'encoding': enc}

                        if declared:
                            kw['line_endings'] = le
                            dkw['line_endings'] = le

                        out.append({'encoding': 'utf-8', 'calls': [
                            ['preamble', kw], ['change', {}],
                            ['preamble', dict(kw, encoding=None) if False
                             else {k: v for k, v in kw.items()
                                   if k != 'encoding'}],
                            ['file', {}],
                            ['meta', {'metadata': {'t': 'L' * min(n, 300)}}],
                            ['diff', dkw]]})

    return out


REFUSED_ANYWHERE = [
    ['preamble', {'text': ''}],
    ['preamble', {'text': 'x', 'line_endings': 'mac'}],
    ['preamble', {'text': 'x', 'encoding': 'no-such-codec'}],
    ['preamble', {'text': 'R\xe9sum\xe9', 'encoding': 'ascii'}],
    ['meta', {'metadata': {}}],
    ['meta', {'metadata': {'k': 1}, 'meta_format': 'yaml'}],
    ['meta', {'metadata': {'k': 1}, 'encoding': 'no-such-codec'}],
    ['diff', {'content': b''}],
    ['diff', {'content': b'x\n', 'diff_type': 'patch'}],
    ['diff', {'content': b'x\n', 'line_endings': 'mac'}],
    # refused only when the header is about to be written, after the
    # content was prepared: nothing of it may stay behind
    ['preamble', {'text': 'REFUSED\nTEXT', 'encoding': 'utf 8', 'indent': 3}],
    ['preamble', {'text': 'REFUSED', 'encoding': 'utf:8'}],
    ['meta', {'metadata': {'refused': 1}, 'encoding': 'latin 1'}],
    ['diff', {'content': b'refused\n', 'encoding': 'utf 8'}],
    ['preamble', {'text': 'REFUSED', 'encoding': 'utf-8\n', 'indent': 2}],
    ['meta', {'metadata': {'refused': 1}, 'encoding': 'utf-8\n'}],
]


def write_program_with_refused_calls(program):
    """Like write_program, but after every accepted call every call that
    must be refused there (invalid arguments, or a container the order
    forbids) is attempted.  Returns (bytes, problem or None)."""
    ns = sut.load()
    stream = io.BytesIO()
    main = program.get('encoding', 'utf-8')
    writer = ns.DiffXWriter(stream, encoding=main)
    w = spec.Walker(main)

    def refuse_all():
        for op, kw in REFUSED_ANYWHERE:
            before = stream.getvalue()

            try:
                gen.call_writer(writer, op, kw)
            except Exception:
                if stream.getvalue() != before:
                    return 'refused-call-wrote-bytes', '%s%r' % (op, kw)

                continue

            return 'invalid-call-accepted', '%s%r after %s' % (op, kw, w.prev)

        for op in ('change', 'file'):
            if not w.accepts(op):
                try:
                    gen.call_writer(writer, op, {'encoding': 'utf-32-le'})
                except Exception:
                    continue

                return 'illegal-container-call-accepted', op

        return None

    res = refuse_all()

    if res:
        return stream.getvalue(), res

    for op, kw in program['calls']:
        try:
            gen.call_writer(writer, op, kw)
        except Exception as e:
            return stream.getvalue(), ('legal-call-rejected-after-refused-'
                                       'calls', '%s after %s: %r'
                                       % (op, w.prev, e))

        w.advance(op, kw)
        res = refuse_all()

        if res:
            return stream.getvalue(), res

    return stream.getvalue(), None
