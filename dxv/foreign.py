"""Independent generator of well-formed DiffX files "from other producers"
(DESIGN.md 4.5) together with the records the specification says they
contain, their byte layout, and doc-level single-defect mutations (C03).

A *doc* is a JSON-able description; render(doc) -> Rendered.
"""

import json

from hypothesis import strategies as st

from dxv import spec, gen
from dxv.sut import HarnessError

FOREIGN_POOL = ['utf-8', 'utf-8', 'ascii', 'latin-1', 'cp1252', 'cp037',
                'utf-16', 'utf-16-le', 'utf-16-be', 'utf-32', 'utf-32-le',
                'utf-32-be', 'shift_jis', 'gbk', 'koi8-r']

SAFE_LINES = [
    'alpha', 'beta gamma', 'Fix the bug', 'x', '', '', '', 'a b c',
    '    indented',
    ' lead', '#.change:', '#diffx: version=1.0', '#...diff: length=3',
    '@@ -1,2 +1,2 @@', '+added', '-removed', '--- a/file', '+++ b/file',
    'é', 'Жя', '中文', 'tab\there', 'nul\x00', '}', '{"a": 1}', 'end.',
    'trailing ', 'mid﻿bom',
    'ctrl\x1az', '\u041a\u0438\u0440\u0438\u043b\u043b\u0438\u0446\u0430', '\x1a',
    'progress\rdone', 'a\rb\rc', 'cr\r    spaces', 'vt\x0bff\x0cfs\x1cgs\x1d',
    'nel\x85ls\u2028ps\u2029',
]


def _safe_for(enc, line):
    """Encodable, and (multi-byte codecs) no code unit carrying a 0x0A/0x0D
    byte other than real CR/LF characters."""
    try:
        if line.encode(enc).decode(enc) != line:
            return False
    except Exception:
        return False

    if len(spec.nl_bytes('unix', enc)) > 1:
        for c in line:
            if c in '\r\n':
                continue

            b = spec.nl_bytes('unix', enc)  # just for unit size
            e = codecs_bomless(c, enc)

            if b'\n' in e or b'\r' in e:
                return False

    return True


def codecs_bomless(s, enc):
    import codecs
    e = codecs.getincrementalencoder(enc or 'ascii')()
    e.encode('x')
    return e.encode(s)


_lines_cache = {}


def lines_for(enc):
    key = enc or 'latin-1'

    if key not in _lines_cache:
        _lines_cache[key] = [l for l in SAFE_LINES if _safe_for(key, l)]

    return _lines_cache[key]


# ---------------------------------------------------------------------------
# Strategy
# ---------------------------------------------------------------------------

@st.composite
def _text_lines(draw, enc, kind, declared):
    """Lines (without terminators) for a text whose line ending kind is
    ``kind``; obeys the first-line detection rule when undeclared."""
    pool = lines_for(enc)
    n = draw(st.integers(1, 5))
    lines = draw(st.lists(st.sampled_from(pool), min_size=n, max_size=n))

    if draw(st.integers(0, 19)) == 0:
        # many lines: logical line numbers cross 100 and 1000
        n = draw(st.sampled_from([98, 99, 100, 101, 998, 999, 1000, 1001]))
        lines = ['l%d' % i for i in range(n)]
    elif draw(st.integers(0, 5)) == 0:
        # a tiny text (shorter than its own indentation)
        lines = [draw(st.sampled_from(['', 'x', 'ab']))]
        n = 1
    elif draw(st.integers(0, 7)) == 0:
        # a long line (longer than the reader's read-ahead block)
        k = draw(st.sampled_from([90, 95, 96, 97, 191, 192, 193, 300]))
        lines[draw(st.integers(0, n - 1))] = 'L' * k

    if kind == 'unix':
        # incidental CR at the end of later lines (looks like CRLF)
        lines = [l + ('\r' if i > 0 and draw(st.integers(0, 5)) == 0 else '')
                 for i, l in enumerate(lines)]

        if declared and draw(st.integers(0, 3)) == 0:
            lines[0] = lines[0] + '\r'
    else:
        # incidental lone LF inside later lines
        lines = [(l + '\n' + 'z') if i > 0 and draw(st.integers(0, 5)) == 0
                 else l for i, l in enumerate(lines)]

        if declared and draw(st.integers(0, 3)) == 0:
            lines[0] = 'q\n' + lines[0]

    return lines


@st.composite
def docs(draw, allow_unencoded=True, allow_nonobject_meta=False,
         max_changes=3, max_files=3, meta_min_size=0,
         unknown_options=False, extra_codecs=()):
    crlf = draw(st.integers(0, 3)) == 0
    pool = FOREIGN_POOL + list(extra_codecs)
    _opt_enc = st.one_of(st.none(), st.none(), st.sampled_from(pool))
    main_enc = draw(st.one_of(st.sampled_from(pool),
                              st.sampled_from(pool),
                              st.none() if allow_unencoded else
                              st.just('utf-8')))
    sections = []
    enc_stack = [main_enc]

    def blanks():
        n = draw(st.sampled_from([0, 0, 0, 0, 1, 1, 2, 3]))

        if n == 3:
            # a run longer than the reader's read-ahead block
            n = draw(st.sampled_from([47, 48, 49, 95, 96, 97, 200]))

        return n

    def order():
        return draw(st.integers(0, 10 ** 6))

    def container(sid, level):
        own = draw(_opt_enc) if sid != 'diffx' else main_enc
        del enc_stack[level:]
        enc_stack.append(own if own is not None else
                         (enc_stack[-1] if enc_stack else None))
        sections.append({'id': sid, 'encoding': own, 'blank_before': blanks(),
                         'order': order()})

    def preamble(sid):
        own = draw(_opt_enc)
        eff = own if own is not None else enc_stack[-1]
        raw_codec = eff or draw(st.sampled_from(['latin-1', 'utf-8']))
        kind = draw(st.sampled_from(['unix', 'unix', 'dos']))
        declared = draw(st.booleans())
        lines = draw(_text_lines(raw_codec, kind, declared))
        indent = draw(st.sampled_from([None, None, 0, 1, 4, 4, 4, 7, 7]))

        if draw(st.integers(0, 9)) == 0:
            # an indent related to the text: as long as the first line, one
            # more, or as long as the whole text
            indent = draw(st.sampled_from(
                [len(lines[0]), len(lines[0]) + 1,
                 len(lines[0]) + len(spec.nl_str(kind)),
                 sum(len(l) + 1 for l in lines)])) or 1
            indent = min(indent, 300)
        sections.append({
            'id': sid, 'encoding': own, 'raw_codec': raw_codec,
            'lines': lines, 'kind': kind, 'declare_le': declared,
            'indent': indent,
            'blank_unindented': draw(st.booleans()),
            'under_indent': draw(st.sampled_from(
                [None, None, None, [0], [None, 0], [1, None, None],
                 [None, None, 2], [0, 0, 0]])),
            'mimetype': draw(st.sampled_from([None, None, 'text/plain',
                                              'text/markdown'])),
            'blank_before': blanks(), 'order': order(),
        })

    def meta(sid):
        own = draw(_opt_enc)
        eff = own if own is not None else enc_stack[-1]
        raw_codec = eff or 'utf-8'
        value = draw(gen.json_objects(max_leaves=5, min_size=meta_min_size))

        if allow_nonobject_meta and draw(st.integers(0, 9)) == 0:
            value = draw(st.sampled_from([[1, 2], 'str', 5, None, True]))

        sections.append({
            'id': sid, 'encoding': own, 'raw_codec': raw_codec,
            'value': value,
            'style': draw(st.sampled_from(['canonical', 'canonical',
                                           'compact', 'indent2', 'unsorted',
                                           'nonascii', 'leading-space'])),
            'kind': draw(st.sampled_from(['unix', 'unix', 'unix', 'dos'])),
            'declare_le': draw(st.integers(0, 4)) == 0,
            'format': draw(st.sampled_from([None, 'json', 'json'])),
            'blank_before': blanks(), 'order': order(),
        })

    def diff(sid):
        own = draw(st.sampled_from([None, None, None, 'utf-8', 'latin-1',
                                    'utf-16', 'utf-16-le', 'utf-32-be',
                                    'cp037']))
        kind = draw(st.sampled_from(['unix', 'unix', 'dos']))
        declared = draw(st.booleans())
        raw_codec = own or draw(st.sampled_from(['latin-1', 'utf-8']))
        lines = draw(_text_lines(raw_codec, kind, declared))
        sections.append({
            'id': sid, 'encoding': own, 'raw_codec': raw_codec,
            'lines': lines, 'kind': kind, 'declare_le': declared,
            'type': draw(st.sampled_from([None, None, 'text', 'binary'])),
            'blank_before': blanks(), 'order': order(),
        })

    container('diffx', 0)

    if draw(st.booleans()):
        preamble('.preamble')

    if draw(st.booleans()):
        meta('.meta')

    for _c in range(draw(st.integers(1, max_changes))):
        container('.change', 1)

        if draw(st.booleans()):
            preamble('..preamble')

        has_cmeta = draw(st.booleans())

        if has_cmeta:
            meta('..meta')

        lo = 0 if has_cmeta and draw(st.integers(0, 7)) == 0 else 1

        for _f in range(draw(st.integers(lo, max_files))):
            container('..file', 2)
            meta('...meta')

            if draw(st.booleans()):
                diff('...diff')

    # other producers may add options of their own
    for sec in sections:
        if unknown_options and draw(st.integers(0, 9)) == 0:
            sec['extra'] = [[draw(st.integers(0, 6)),
                             draw(st.sampled_from(
                                 ['x-range', 'vendor', 'tool_version', 'note',
                                  'X', 'a1'])),
                             draw(st.sampled_from(
                                 ['--7', '-', '1-', '--', 'v1', '7', '-3',
                                  '007', 'a/b', '1.5', 'none']))]]

    return {'crlf_headers': crlf, 'sections': sections,
            'trailing_blank': draw(st.sampled_from([0, 0, 1, 2]))}


# ---------------------------------------------------------------------------
# Rendering
# ---------------------------------------------------------------------------

class Rendered(object):
    def __init__(self):
        self.data = b''
        self.records = []      # expected records
        self.spans = []        # (header_start, content_start, content_end)
        self.header_pairs = [] # [(key, value str), ...] per section
        self.freedoms = set()
        self.defect_index = None
        self.defect_span = None   # (line_lo, line_hi)
        self.model_accepts = True  # C06: the object model can hold it


def _shuffle(pairs, seed):
    """Deterministic permutation of option pairs from an integer."""
    pairs = list(pairs)
    out = []
    n = seed

    while pairs:
        n, i = divmod(n, len(pairs))
        out.append(pairs.pop(i))

    return out


def json_text(value, style):
    if style == 'canonical':
        return json.dumps(value, indent=4, sort_keys=True,
                          separators=(',', ': '))

    if style == 'compact':
        return json.dumps(value, separators=(',', ':'), sort_keys=True)

    if style == 'indent2':
        return json.dumps(value, indent=2, sort_keys=True)

    if style == 'leading-space':
        # JSON text may begin with white space
        return ' \t\n ' + json.dumps(value, indent=1, sort_keys=True)

    if style == 'unsorted':
        return json.dumps(value, indent=4)

    return json.dumps(value, indent=4, sort_keys=True, ensure_ascii=False)


def render(doc):
    r = Rendered()
    hnl = b'\r\n' if doc.get('crlf_headers') else b'\n'

    if doc.get('crlf_headers'):
        r.freedoms.add('crlf-headers')

    out = []
    pos = 0
    line = 0
    enc_stack = []
    defect = doc.get('defect')     # {'index': j, 'kind': ...} or None

    for idx, s in enumerate(doc['sections']):
        sid = s['id']
        kind = spec.kind_of(sid)
        level = spec.level_of(sid)
        d = defect['kind'] if defect and defect['index'] == idx else None

        for _ in range(s.get('blank_before', 0) if idx else 0):
            out.append(hnl)
            pos += len(hnl)
            r.freedoms.add('blank-lines')

        pairs = []
        own = s.get('encoding')

        if own is not None:
            pairs.append(('encoding', own))

        content = b''
        value = None
        nlines = 0

        if kind == 'container':
            if sid == 'diffx':
                if d and d.startswith('bad-version'):
                    pairs.append(('version', {
                        'bad-version': '2.0', 'bad-version-1.00': '1.00',
                        'bad-version-01.0': '01.0', 'bad-version-1': '1',
                        'bad-version-1.0.0': '1.0.0',
                        'bad-version-10': '10', 'bad-version-1.-0': '1.-0',
                        'bad-version-v': 'v1.0'}[d]))
                elif d != 'missing-version':
                    pairs.append(('version', '1.0'))

                enc_stack = [own]

                if own is None:
                    r.freedoms.add('no-main-encoding')
            else:
                del enc_stack[level:]
                enc_stack.append(own if own is not None else enc_stack[-1])
        else:
            eff = own if own is not None else (
                None if kind == 'diff' else enc_stack[-1])
            raw_codec = s['raw_codec']
            le = s['kind']
            nl_enc = eff if eff is not None else (
                None if kind == 'diff' else None)
            # newline bytes: in the effective encoding, ASCII when none
            nl = spec.nl_bytes(le, eff)
            nls = spec.nl_str(le)

            if kind == 'meta':
                style = s['style']

                if style == 'nonascii' and \
                        len(spec.nl_bytes('unix', eff or raw_codec)) > 1:
                    # raw non-ASCII JSON only where no code unit can look
                    # like a newline (single-byte codecs and UTF-8)
                    style = 'canonical'

                if style == 'nonascii':
                    try:
                        t = json_text(s['value'], style)

                        if t.encode(eff or raw_codec).decode(
                                eff or raw_codec) != t:
                            style = 'canonical'
                    except UnicodeError:      # not encodable here
                        style = 'canonical'

                if d == 'bad-json':
                    text = '{"a" 1}'
                else:
                    text = json_text(s['value'], style)

                if style != 'canonical':
                    r.freedoms.add('json-' + style)

                if le == 'dos':
                    text = text.replace('\n', '\r\n')

                text += nls
                lines_txt = None
            else:
                text = nls.join(s['lines']) + nls

            # encode: body in raw_codec (== eff when there is one), the
            # newline separators in the effective newline encoding
            if eff is not None:
                data = text.encode(eff)
            else:
                # no encoding anywhere: 8-bit data with ASCII newlines
                data = text.encode(raw_codec)

            if d == 'bad-json-bytes':
                # invalid at the byte level (not valid UTF-8, nor anything
                # else), whatever the encoding in effect
                data = b'{"a": "caf\xe9\xff" \xfe}' + nl

            if d == 'no-final-newline':
                x = codecs_bomless('x', eff)
                data = data[:-len(nl)] + (x * len(nl))[:len(nl)]

            if d == 'dos-final-lf-only':
                # a DOS section whose last line ends in a bare LF: same
                # length, the CR replaced by an ordinary character
                lf = spec.nl_bytes('unix', eff)
                x = codecs_bomless('x', eff)
                data = data[:-len(nl)] + (x * len(lf))[:len(nl) - len(lf)] \
                    + lf

            ind = s.get('indent') if kind == 'preamble' else None

            if kind == 'preamble':
                if ind is not None:
                    pairs.append(('indent', str(ind)))
                else:
                    r.freedoms.add('indent-omitted')

                if ind:
                    new = []
                    under = s.get('under_indent') or []

                    for li, ln in enumerate(spec.split_keep(data, nl)):
                        if s.get('blank_unindented') and ln == nl:
                            new.append(ln)
                            r.freedoms.add('blank-line-unindented')
                        elif under and under[li % len(under)] is not None \
                                and under[li % len(under)] < ind \
                                and ln[:1] != b' ':
                            # a line with fewer spaces than declared: the
                            # reader strips what is there
                            new.append(b' ' * under[li % len(under)] + ln)
                            r.freedoms.add('under-indented-line')
                        else:
                            new.append(b' ' * ind + ln)

                    body = b''.join(new)
                    # the specification's reading: up to `ind` leading
                    # spaces are removed from every line
                    stripped = []

                    for ln in spec.split_keep(body, nl):
                        k = 0

                        while k < ind and ln[k:k + 1] == b' ':
                            k += 1

                        stripped.append(ln[k:])

                    data = b''.join(stripped)
                else:
                    body = data

                if s.get('mimetype') is not None:
                    pairs.append(('mimetype', s['mimetype']))
            else:
                body = data

            if kind == 'meta':
                fmt = s.get('format')

                if d and d.startswith('format-'):
                    fmt = {'format-html': 'html', 'format-0': '0',
                           'format-00': '00', 'format-upper': 'JSON',
                           'format-none': 'None',
                           'format-prefix': 'js'}[d]

                if fmt is not None:
                    pairs.append(('format', fmt))
                else:
                    r.freedoms.add('format-omitted')

            if kind == 'diff' and s.get('type') is not None:
                pairs.append(('type', s['type']))

            if d == 'le-c64':
                pairs.append(('line_endings', 'c64'))
            elif s.get('declare_le'):
                pairs.append(('line_endings', le))
            else:
                r.freedoms.add('line-endings-omitted')

            if d != 'missing-length':
                pairs.append(('length', str(len(body))))

            content = body
            nlines = len(spec.split_keep(body, nl))

            # the specification's reading
            if kind == 'diff':
                value = body
            elif kind == 'meta':
                value = s['value']
            elif eff is None:
                value = data       # stays bytes (indentation removed)
            else:
                try:
                    value = data.decode(eff)
                except UnicodeDecodeError:
                    if d is None:
                        raise

                    value = None      # the defect made it undecodable

            if kind == 'preamble' and eff is None:
                r.model_accepts = False

            if kind == 'meta' and not isinstance(s['value'], dict):
                r.model_accepts = False

        pairs = _shuffle(sorted(pairs), s.get('order', 0))

        if [k for k, _ in pairs] != sorted(k for k, _ in pairs):
            r.freedoms.add('options-shuffled')

        for epos, ekey, evalue in s.get('extra', ()):
            # unknown options (C12) / padding (C17), at a given position
            pairs.insert(epos % (len(pairs) + 1), (ekey, evalue))

        header = ('#%s:' % sid).encode('ascii')

        if pairs:
            header += b' ' + b', '.join(
                ('%s=%s' % p).encode('ascii') for p in pairs)

        header += hnl
        hstart = pos
        out.append(header)
        pos += len(header)
        cstart = pos
        out.append(content)
        pos += len(content)
        r.spans.append((hstart, cstart, pos))
        r.header_pairs.append(pairs)

        rec = {'section': sid, 'level': level, 'kind': kind, 'line': line,
               'options': spec.options_dict(pairs), 'content': value}

        if d is not None:
            r.defect_index = idx
            r.defect_span = (line, line + max(1, nlines))

        r.records.append(rec)
        line += 1 + nlines

    for _ in range(doc.get('trailing_blank', 0)):
        out.append(hnl)
        r.freedoms.add('blank-lines')

    r.data = b''.join(out)
    return r


def cross_check(r):
    """The constructive expectation and the strict reference parser must
    agree on every defect-free rendered file (harness self-consistency)."""
    recs, err = spec.ref_parse(r.data)

    if err is not None:
        raise HarnessError('reference parser rejects a generated foreign '
                           'file: %s (line %d)' % (err.reason, err.line_lo))

    if len(recs) != len(r.records):
        raise HarnessError('reference parser: %d records, generator %d'
                           % (len(recs), len(r.records)))

    for a, b in zip(recs, r.records):
        for k in ('section', 'level', 'line', 'options'):
            if a[k] != b[k]:
                raise HarnessError('generator/reference parser disagree on '
                                   '%s of %s: %r vs %r'
                                   % (k, b['section'], a[k], b[k]))

        if spec.kind_of(b['section']) != 'container':
            if type(a['content']) is not type(b['content']) or \
                    a['content'] != b['content']:
                raise HarnessError('generator/reference parser disagree on '
                                   'content of %s: %r vs %r'
                                   % (b['section'], a['content'],
                                      b['content']))


CONTENT_KEY = {'preamble': 'text', 'meta': 'metadata', 'diff': 'diff'}


def compare(recs, expected, check_line=True):
    """Reader records vs expected records: None or (kind, detail)."""
    for i, (got, exp) in enumerate(zip(recs, expected)):
        if got.get('section') != exp['section'] or \
                got.get('level') != exp['level'] or \
                got.get('type') != exp['section'].lstrip('.'):
            return ('wrong-section', 'record %d: %r level %r, expected %r'
                    % (i, got.get('section'), got.get('level'),
                       exp['section']))

        if check_line and got.get('line') != exp['line']:
            return ('wrong-line', 'record %d (%s): line %r, expected %r'
                    % (i, exp['section'], got.get('line'), exp['line']))

        go = got.get('options')
        eo = exp['options']

        if go != eo or any(type(go[k]) is not type(eo[k]) for k in eo):
            return ('wrong-options', 'record %d (%s): %r, expected %r'
                    % (i, exp['section'], go, eo))

        if exp['kind'] == 'container':
            continue

        gc = got.get(CONTENT_KEY[exp['kind']])
        ec = exp['content']

        if exp['kind'] == 'meta' and not isinstance(ec, bytes):
            try:
                same = (json.dumps(gc, sort_keys=True) ==
                        json.dumps(ec, sort_keys=True))
            except (TypeError, ValueError):
                same = False
        else:
            same = type(gc) is type(ec) and gc == ec

        if not same:
            return ('wrong-content', 'record %d (%s): %r, expected %r'
                    % (i, exp['section'], _short(gc), _short(ec)))

    return None


def _short(v):
    s = repr(v)
    return s if len(s) < 240 else s[:240] + '...'


# ---------------------------------------------------------------------------
# Single-defect mutations (C03)
# ---------------------------------------------------------------------------

def applicable_defects(doc):
    out = [(0, 'bad-version'), (0, 'missing-version')]
    n = len(doc['sections'])
    out.append((0, ['bad-version-1.00', 'bad-version-01.0', 'bad-version-1',
                    'bad-version-1.0.0', 'bad-version-10',
                    'bad-version-1.-0', 'bad-version-v'][n % 7]))

    for i, s in enumerate(doc['sections']):
        kind = spec.kind_of(s['id'])

        if kind == 'container':
            continue

        out.append((i, 'missing-length'))
        out.append((i, 'no-final-newline'))
        out.append((i, 'le-c64'))

        if s['kind'] == 'dos' and (s.get('declare_le') or (
                kind != 'meta' and len(s['lines']) >= 2)):
            # (an undeclared one-line text ending in LF simply is unix)
            out.append((i, 'dos-final-lf-only'))

        if kind == 'meta':
            out.append((i, 'format-html'))
            out.append((i, ['format-0', 'format-00', 'format-upper',
                            'format-none', 'format-prefix'][i % 5]))
            out.append((i, 'bad-json'))
            out.append((i, 'bad-json-bytes'))

    return out


def with_defect(doc, index, kind):
    d = dict(doc)
    d['defect'] = {'index': index, 'kind': kind}
    return d
