"""Entry point of the pristine helper processes (see engine.run_isolated).

This module is preloaded into a multiprocessing *forkserver*: a separate
interpreter that has imported the library under test but never called it.
Every isolated case runs in a child forked from that server, so module- and
class-level state of the library is as after a fresh import, whatever the
worker that asked for the case has done before.
"""

import importlib
import traceback

from dxv import sut

sut.load()          # import only; nothing of the library is called here


def main(module, name, case, conn):
    from dxv import engine

    try:
        fn = getattr(importlib.import_module(module), name)
        sub = engine.Stats()

        try:
            engine.guarded(fn, case, sub)
            payload = ('ok', sub.buckets, dict(sub.classes),
                       dict(sub.excluded))
        except BaseException:
            payload = ('error', traceback.format_exc(), {}, {})
    except BaseException:
        payload = ('error', traceback.format_exc(), {}, {})

    conn.send(payload)
    conn.close()
