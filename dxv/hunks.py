"""Unified-diff hunks with known geometry (DESIGN.md 4.4).

The generator emits each hunk header *from* the body, so start lines,
counts, first/last changed lines, context sizes and +/- totals are known by
construction."""

import re

from hypothesis import strategies as st

MARKER = b'\\ No newline at end of file'
HEADER_RE = re.compile(
    rb'^@@ -(\d+)(,(\d+))? \+(\d+)(,(\d+))? @@( (.*))?$')

PAYLOADS = [b'', b'x', b'line of text', b'-- a/file', b'++ b/file',
            b'@@ -1 +1 @@', b' leading space', b'\ttab', b'+', b'-', b' ',
            b'\\ No newline at end of file', b'#.change:', b'diff --git a b',
            b'\xc3\xa9 caf\xc3\xa9', b'tail ', b'@@', b'form\x0cfeed', b'vt\x0bx',
            b'fs\x1cx', b'lone\rcr', b'y' * 1500, b'cr at end\r', b'nul\x00byte', b'sub\x1az', b'\x1a']
GARBAGE = [b'@@ -4 +4 @@@', b'@@ -4,2 +4,2 @@x', b'@@ -1 +1 @@\t',
           b'@@ -1 +1 @@@ ctx', b'diff --git a/x b/x', b'index 123..456 100644', b'--- a/x',
           b'+++ b/x', b'', b'Index: x', b'=====', b'@@ not a header @@',
           b'@@ -1 +1', b'@@', b'\\ No newline at end of file',
           b'+stray insert', b'-stray delete', b' stray context',
           b'Binary files differ', b'@@ -a,b +c,d @@']


def is_header(line):
    return HEADER_RE.match(line.rstrip(b'\n')) is not None


@st.composite
def hunk_st(draw, max_body=8):
    if draw(st.integers(0, 14)) == 0:
        # a big hunk (a whole new or deleted file, a long rewrite)
        n = draw(st.sampled_from([99, 100, 101, 127, 128, 250, 1000]))
        shape = draw(st.sampled_from(['+', '+', '-', ' ', 'mix']))
        body = []

        for i in range(n):
            k = shape if shape != 'mix' else ' +-'[(i * 7 + n) % 3]
            body.append([k, b'l%d' % i])
    else:
        n = draw(st.integers(0, max_body))
        kinds = draw(st.lists(st.sampled_from([' ', ' ', '+', '-', '+', '-',
                                               'marker']),
                              min_size=n, max_size=n))
        body = []

        for k in kinds:
            if k == 'marker':
                body.append(['marker', MARKER])
            else:
                body.append([k, draw(st.sampled_from(PAYLOADS))])

    if body and draw(st.integers(0, 9)) == 0:
        # a deleted line "-- ..." directly followed by an inserted "++ ..."
        # (they read "--- ..." / "+++ ..." like a file header)
        k = draw(st.integers(0, len(body)))
        body[k:k] = [['-', b'-- a/old name'], ['+', b'++ b/new name']]

    return {
        'orig_start': draw(st.sampled_from([0, 1, 1, 2, 10, 164, 99999])),
        'mod_start': draw(st.sampled_from([0, 1, 1, 2, 3, 10, 164, 170,
                                           100001])),
        'body': body,
        'context': draw(st.sampled_from([None, None, b'def f():', b'',
                                         b'@@ nested @@', b'class X:',
                                         b'caf\xe9()', b'\xff\xfe',
                                         b'@@count += 1',
                                         b'SELECT @@ROWCOUNT'])),
        'omit_one': [draw(st.booleans()), draw(st.booleans())],
    }


def counts(h):
    oc = sum(1 for k, _ in h['body'] if k in (' ', '-'))
    mc = sum(1 for k, _ in h['body'] if k in (' ', '+'))
    return oc, mc


def hunk_lines(h):
    """(lines, index within them of the last counting line or 0=header)."""
    oc, mc = counts(h)

    def rng(start, cnt, omit):
        if cnt == 1 and omit:
            return b'%d' % start

        return b'%d,%d' % (start, cnt)

    header = b'@@ -%s +%s @@' % (rng(h['orig_start'], oc, h['omit_one'][0]),
                                rng(h['mod_start'], mc, h['omit_one'][1]))

    if h['context'] is not None:
        header += b' ' + h['context']

    lines = [header]
    last_counting = 0

    for i, (k, payload) in enumerate(h['body']):
        if k == 'marker':
            lines.append(payload)
        else:
            lines.append(k.encode('ascii') + payload)
            last_counting = i + 1

    return lines, last_counting


def geometry(h):
    """The entry the parser must return for this hunk."""
    oc, mc = counts(h)
    orig = {'start_line': h['orig_start'] - 1, 'num_lines': oc,
            'first_changed_line': None, 'last_changed_line': None,
            'num_lines_changed': 0}
    mod = {'start_line': h['mod_start'] - 1, 'num_lines': mc,
           'first_changed_line': None, 'last_changed_line': None,
           'num_lines_changed': 0}
    oi = mi = 0
    _, last_counting = hunk_lines(h)

    for idx, (k, _) in enumerate(h['body']):
        if idx + 1 > last_counting:
            break                      # trailing markers are outside

        if k == '-':
            if orig['first_changed_line'] is None:
                orig['first_changed_line'] = orig['start_line'] + oi

            orig['last_changed_line'] = orig['start_line'] + oi
            orig['num_lines_changed'] += 1
            oi += 1
        elif k == '+':
            if mod['first_changed_line'] is None:
                mod['first_changed_line'] = mod['start_line'] + mi

            mod['last_changed_line'] = mod['start_line'] + mi
            mod['num_lines_changed'] += 1
            mi += 1
        elif k == ' ':
            oi += 1
            mi += 1

    pre = []
    post = []

    for side in (orig, mod):
        if side['first_changed_line'] is not None:
            pre.append(side['first_changed_line'] - side['start_line'])
            post.append(side['num_lines'] -
                        (side['last_changed_line'] - side['start_line'] + 1))

    return {
        'context': h['context'],
        'orig': orig,
        'modified': mod,
        'lines_of_context_pre': min(pre or [0]),
        'lines_of_context_post': min(post or [0]),
    }


@st.composite
def diff_st(draw, max_hunks=5, garbage=True):
    """{'pre': [garbage lines], 'hunks': [{hunk, 'after': [garbage]}]}"""
    g = st.lists(st.sampled_from(GARBAGE), max_size=2) if garbage else \
        st.just([])
    pre = draw(st.sampled_from([[], [], [b'--- a/f', b'+++ b/f'],
                                [b'diff --git a/f b/f', b'index 1..2',
                                 b'--- a/f', b'+++ b/f']])) if garbage else []
    hunks = []

    for _ in range(draw(st.integers(0, max_hunks))):
        hunks.append({'hunk': draw(hunk_st()),
                      'after': draw(g) if draw(st.integers(0, 2)) == 0
                      else []})

    return {'pre': list(pre), 'hunks': hunks}


def diff_lines(d):
    """(lines, expected) for a diff description.

    expected = {'hunks': [...], 'total_inserts', 'total_deletes',
    'first_outside': index of the first non-hunk line after a completed hunk
    or before any hunk (None when every line belongs to a hunk)}"""
    lines = list(d['pre'])
    first_outside = 0 if d['pre'] else None
    geo = []
    ins = dels = 0

    for entry in d['hunks']:
        h = entry['hunk']
        hl, last_counting = hunk_lines(h)
        base = len(lines)
        lines.extend(hl)
        geo.append(geometry(h))
        ins += geo[-1]['modified']['num_lines_changed']
        dels += geo[-1]['orig']['num_lines_changed']

        # markers after the last counting line are outside the hunk
        if last_counting + 1 < len(hl) and first_outside is None:
            first_outside = base + last_counting + 1

        if entry['after'] and first_outside is None:
            first_outside = len(lines)

        lines.extend(entry['after'])

    return lines, {'hunks': geo, 'total_inserts': ins, 'total_deletes': dels,
                   'first_outside': first_outside}
