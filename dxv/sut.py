"""Access to the code under test (always the current working tree)."""

import io
import os
import sys

REPO = os.environ.get('VERIF_REPO', '/repo')
GUARD = 'BEANBAGINC_DIFFX_VERIF'


class HarnessError(Exception):
    """Something is wrong with the harness or the tree cannot be imported."""


_loaded = None


class _NS(object):
    pass


def load():
    """Import pydiffx from the working tree and return a namespace."""
    global _loaded

    if _loaded is not None:
        return _loaded

    sys.dont_write_bytecode = True
    os.environ.setdefault(GUARD, '1')
    path = os.path.join(REPO, 'python')

    if not os.path.isdir(os.path.join(path, 'pydiffx')):
        raise HarnessError('no pydiffx package under %s' % path)

    if path in sys.path:
        sys.path.remove(path)

    sys.path.insert(0, path)

    try:
        import logging
        import pydiffx
        from pydiffx import errors, sections, options
        from pydiffx.reader import DiffXReader
        from pydiffx.writer import DiffXWriter
        from pydiffx.utils import text, unified_diffs
        from pydiffx.dom import objects as dom
        from pydiffx.dom.reader import DiffXDOMReader
        from pydiffx.dom.writer import DiffXDOMWriter
    except Exception as e:  # pragma: no cover
        raise HarnessError('cannot import pydiffx from %s: %r' % (path, e))

    if not os.path.abspath(pydiffx.__file__).startswith(
            os.path.abspath(path)):
        raise HarnessError('pydiffx imported from %s, expected %s'
                           % (pydiffx.__file__, path))

    # generate_stats() logs parse errors; keep the check output clean.
    logging.getLogger('pydiffx').addHandler(logging.NullHandler())
    logging.getLogger('pydiffx').propagate = False

    if os.environ.get('DXV_OCHECK_DEBUG_LOGGING'):
        # the interpreter-flags checks: an application listening to
        # everything the library has to say
        logging.getLogger('pydiffx').setLevel(logging.DEBUG)
    else:
        # the level an application that never touched logging has: what
        # the library does for a warning is done, nothing is printed
        logging.getLogger('pydiffx').setLevel(logging.WARNING)

    ns = _NS()
    ns.pydiffx = pydiffx
    ns.errors = errors
    ns.sections = sections
    ns.options = options
    ns.DiffXReader = DiffXReader
    ns.DiffXWriter = DiffXWriter
    ns.text = text
    ns.unified_diffs = unified_diffs
    ns.dom = dom
    ns.DiffX = dom.DiffX
    ns.DiffXDOMReader = DiffXDOMReader
    ns.DiffXDOMWriter = DiffXDOMWriter
    ns.DiffXParseError = errors.DiffXParseError
    ns.BaseDiffXError = errors.BaseDiffXError
    ns.MalformedHunkError = errors.MalformedHunkError
    _loaded = ns
    return ns


def load_lexer():
    load()

    try:
        from pydiffx.integrations.pygments_lexer import DiffXLexer
    except Exception as e:  # pragma: no cover
        raise HarnessError('cannot import the lexer: %r' % (e,))

    return DiffXLexer


class ReadBudgetExceeded(BaseException):
    """The reader issued more read() calls than any terminating run can."""


class BudgetedStream(io.BytesIO):
    """BytesIO that counts read() calls and gives up beyond a budget.

    Every read() of a terminating reader either consumes at least one byte or
    hits EOF once, so 2*len(data)+64 calls is far beyond what a correct
    reader needs; exceeding it stands for "does not terminate".
    """

    def __init__(self, data, budget=None):
        super(BudgetedStream, self).__init__(data)
        self.reads = 0
        self.budget = budget if budget is not None else 2 * len(data) + 64

    def read(self, *args):
        self.reads += 1

        if self.reads > self.budget:
            raise ReadBudgetExceeded()

        return super(BudgetedStream, self).read(*args)


def open_stream(data, how=None):
    """Streams a caller may hand to the reader.

    how: None -> BytesIO; ('buffered', n) -> io.BufferedReader over BytesIO
    with an n-byte buffer; ('offset', k) -> BytesIO positioned after k junk
    bytes; ('file',) -> a real file opened 'rb' (caller closes/unlinks via
    stream.close())."""
    if not how:
        return io.BytesIO(data)

    if how[0] == 'buffered':
        return io.BufferedReader(io.BytesIO(data), buffer_size=how[1])

    if how[0] == 'offset':
        s = io.BytesIO(b'\xff' * how[1] + data)
        s.seek(how[1])
        return s

    if how[0] == 'file':
        import tempfile
        fp = tempfile.TemporaryFile()
        fp.write(data)
        fp.seek(0)
        return fp

    if how[0] == 'gzip':
        import gzip
        import tempfile
        f = tempfile.NamedTemporaryFile(suffix='.gz', delete=False)
        f.close()

        with gzip.open(f.name, 'wb') as gz:
            gz.write(data)

        stream = gzip.open(f.name, 'rb')
        os.unlink(f.name)
        return stream

    raise ValueError(how)


def read_records_from(stream):
    ns = load()
    records = []

    try:
        for rec in ns.DiffXReader(stream):
            records.append(rec)
    except Exception as e:
        return records, e

    return records, None


def read_records_from_reader(reader):
    records = []

    try:
        for rec in reader:
            records.append(rec)
    except Exception as e:
        return records, e

    return records, None


def read_records(data, budget=True):
    """Run the streaming reader; return (records, exception or None).

    Records are returned as produced (dicts).  Only Exception subclasses and
    ReadBudgetExceeded are caught.
    """
    ns = load()
    if budget:
        stream = BudgetedStream(data)
    else:
        # a stream whose position is not always 0 when the reader gets it
        # (0, 1 or 2 bytes of an envelope the caller consumed already)
        stream = open_stream(data, ('offset', len(data) % 3))

    records = []

    try:
        for rec in ns.DiffXReader(stream):
            records.append(rec)
    except ReadBudgetExceeded as e:
        return records, e
    except Exception as e:
        return records, e

    return records, None


class WatchdogTimeout(BaseException):
    """Not an Exception: nothing in the code under test may swallow it."""


class watchdog(object):
    """with watchdog(30): ...  -- raises WatchdogTimeout in the main thread
    after that many seconds of wall time (SIGALRM; also interrupts a regular
    expression that backtracks for ever)."""

    def __init__(self, seconds):
        self.seconds = seconds

    def _fire(self, signum, frame):
        raise WatchdogTimeout()

    def __enter__(self):
        import signal
        self.old = signal.signal(signal.SIGALRM, self._fire)
        signal.alarm(self.seconds)
        return self

    def __exit__(self, *exc):
        import signal
        signal.alarm(0)
        signal.signal(signal.SIGALRM, self.old)
        return False


OTHER_FILE = (b'#diffx: encoding=utf-8, version=1.0\n#.preamble: length=6\n'
              b'hello\n#.change:\n#..preamble: length=3\nhi\n#..file:\n'
              b'#...meta: format=json, length=9\n{"a": 1}\n'
              b'#...diff: length=3\nab\n')


def _companion_records(ns, other):
    return [dict(r) for r in ns.DiffXReader(io.BytesIO(other))]


class CompanionDisturbed(Exception):
    """The companion reader, fine on its own, went wrong next to ours."""


def read_records_lockstep(data, other=OTHER_FILE, abandon_first=True):
    """Like read_records(data, budget=False), but in the company of other
    readers: one abandoned after two records, one advanced alternately
    with ours (over ``other``, which must be readable on its own).

    Returns (records, exception or None); a companion that raises or
    yields other records than on its own gives CompanionDisturbed."""
    ns = load()

    try:
        solo = _companion_records(ns, other)
    except Exception as e:
        raise HarnessError('the companion file is not readable: %r' % e)

    if abandon_first:
        try:
            it = iter(ns.DiffXReader(io.BytesIO(other)))
            next(it)
            next(it)
        except Exception as e:
            return [], CompanionDisturbed('abandoned reader: %r' % e)

    mine = iter(ns.DiffXReader(io.BytesIO(data)))
    theirs = iter(ns.DiffXReader(io.BytesIO(other)))
    seen = []
    records = []

    while True:
        try:
            records.append(next(mine))
        except StopIteration:
            break
        except Exception as e:
            return records, e

        try:
            seen.append(dict(next(theirs)))
        except StopIteration:
            if seen != solo:
                return records, CompanionDisturbed(
                    'companion records %r' % [r.get('section') for r in seen])

            theirs = iter(ns.DiffXReader(io.BytesIO(other)))
            seen = []
        except Exception as e:
            return records, CompanionDisturbed('%r' % e)

    if seen != solo[:len(seen)]:
        return records, CompanionDisturbed(
            'companion records %r' % [r.get('section') for r in seen])

    return records, None


def innermost_pydiffx_frame(exc):
    """(file basename, function) of the innermost frame inside pydiffx."""
    tb = exc.__traceback__
    found = ('?', '?')

    while tb is not None:
        code = tb.tb_frame.f_code
        fn = code.co_filename.replace('\\', '/')

        if '/pydiffx/' in fn:
            found = (fn.split('/pydiffx/', 1)[1], code.co_name)

        tb = tb.tb_next

    return found


def set_chunk_size(n):
    """Rebind the default read-ahead block size of the reader (C17).

    Returns True when the private helper exists with the expected shape.
    """
    ns = load()
    fn = getattr(ns.DiffXReader, '_read_until', None)

    if fn is None or not getattr(fn, '__defaults__', None):
        return False

    if len(fn.__defaults__) != 1:
        return False

    fn.__defaults__ = (n,)
    return True


def get_chunk_size():
    ns = load()
    fn = getattr(ns.DiffXReader, '_read_until', None)

    if fn is None or not getattr(fn, '__defaults__', None):
        return None

    return fn.__defaults__[0]


def identifier_names():
    """Names used inside the library's reader / object-model code (argument
    and local variable names, attribute names): option keys spelled like
    these are the ones most likely to collide with something internal."""
    import types
    ns = load()
    out = set()

    def walk(code):
        out.update(code.co_varnames)
        out.update(code.co_names)

        for c in code.co_consts:
            if isinstance(c, types.CodeType):
                walk(c)

    import pydiffx.reader
    import pydiffx.dom.reader
    import pydiffx.dom.objects
    import pydiffx.dom.properties

    for mod in (pydiffx.reader, pydiffx.dom.reader, pydiffx.dom.objects,
                pydiffx.dom.properties):
        for obj in vars(mod).values():
            if isinstance(obj, type):
                for v in vars(obj).values():
                    f = getattr(v, '__func__', v)

                    if isinstance(f, types.FunctionType):
                        walk(f.__code__)

                    if isinstance(v, property) and v.fget is not None:
                        walk(v.fget.__code__)
            elif isinstance(obj, types.FunctionType):
                walk(obj.__code__)

    import re
    return sorted(n for n in out
                  if re.fullmatch(r'[A-Za-z][A-Za-z0-9_-]*', n))
