"""Object-model trees (DESIGN.md 4.7): JSON-able descriptions, building them
through the public constructors / typed attributes, snapshots, and the model
of what serialising a tree must produce."""

import copy

from hypothesis import strategies as st

from dxv import sut, spec, gen

MAIN_ATTRS = ('encoding', 'preamble', 'preamble_encoding', 'preamble_indent',
              'preamble_line_endings', 'preamble_mimetype', 'meta',
              'meta_encoding', 'meta_format')
CHANGE_ATTRS = MAIN_ATTRS
FILE_ATTRS = ('encoding', 'meta', 'meta_encoding', 'meta_format', 'diff',
              'diff_encoding', 'diff_line_endings', 'diff_type')

TREE_POOL = ['utf-8', 'ascii', 'latin-1', 'cp1252', 'cp037', 'utf-16',
             'utf-16-le', 'utf-32', 'utf-32-be', 'shift_jis', 'koi8-r']


# ---------------------------------------------------------------------------
# Strategy
# ---------------------------------------------------------------------------

_enc = st.sampled_from(TREE_POOL)


def _maybe(d, draw, name, strategy, p=2):
    if draw(st.integers(0, p)) == 0:
        d[name] = draw(strategy)


@st.composite
def _preamble_attrs(draw, d, eff_container):
    _maybe(d, draw, 'preamble_encoding', _enc, 3)
    eff = d.get('preamble_encoding') or eff_container
    r = draw(st.integers(0, 9))

    if r < 6:
        d['preamble'] = draw(gen.texts(eff))
    elif r == 6:
        d['preamble'] = ''

    _maybe(d, draw, 'preamble_indent', st.sampled_from(gen.INDENTS), 2)
    _maybe(d, draw, 'preamble_line_endings', st.sampled_from(['unix', 'dos']),
           2)
    _maybe(d, draw, 'preamble_mimetype',
           st.sampled_from(['text/plain', 'text/markdown']), 3)
    return d


NOT_JSON = '$not-json'
AS_TUPLE = '$tuple'
INT_KEYS = '$int-keys'


def materialize(v):
    """Replace the {NOT_JSON: kind} markers of a generated metadata value
    by Python values json.dumps refuses."""
    if isinstance(v, dict):
        if set(v) == {NOT_JSON}:
            return {'tuple-key': {('t', 1): 1, ('t', 2): 2},
                    'set': {1, 2},
                    'bytes': b'raw'}[v[NOT_JSON]]

        if set(v) == {AS_TUPLE}:
            # JSON can hold it (as an array), Python tells it from a list
            return tuple(materialize(x) for x in v[AS_TUPLE])

        if set(v) == {INT_KEYS}:
            return {int(k): materialize(x) for k, x in v[INT_KEYS].items()}

        return {k: materialize(x) for k, x in v.items()}

    if isinstance(v, list):
        return [materialize(x) for x in v]

    return v


def tree_meta_marker(v):
    """Materialised values (tuple keys, sets) are left alone."""
    def bad(x):
        if isinstance(x, dict):
            return any(not isinstance(k, str) for k in x) or \
                any(bad(y) for y in x.values())

        if isinstance(x, list):
            return any(bad(y) for y in x)

        return isinstance(x, (set, bytes))

    return {NOT_JSON: 1} if bad(v) else {}


def has_not_json(v):
    if isinstance(v, dict):
        return NOT_JSON in v or any(has_not_json(x) for x in v.values())

    if isinstance(v, list):
        return any(has_not_json(x) for x in v)

    return False


@st.composite
def _meta_attrs(draw, d, p_present=8):
    _maybe(d, draw, 'meta_encoding', _enc, 3)
    r = draw(st.integers(0, 9))

    if r < p_present:
        d['meta'] = draw(gen.json_objects(max_leaves=5, nonfinite=True))

        if p_present < 10 and d['meta'] and \
                draw(st.sampled_from(range(60))) == 59:
            # something JSON cannot hold, somewhere inside (see
            # materialize()): serialising must fail, not drop it
            key = sorted(d['meta'])[0]
            d['meta'][key] = draw(st.sampled_from([
                {NOT_JSON: 'tuple-key'}, [{NOT_JSON: 'tuple-key'}],
                {NOT_JSON: 'set'}, {NOT_JSON: 'bytes'},
                {'a': 1, 'b': {NOT_JSON: 'tuple-key'}}]))
    elif r == p_present:
        d['meta'] = {}

    _maybe(d, draw, 'meta_format', st.just('json'), 3)
    return d


@st.composite
def _diff_attrs(draw, d):
    r = draw(st.integers(0, 9))

    if r < 6:
        kw = draw(gen.diff_kwargs())
        d['diff'] = kw['content']

        if 'encoding' in kw:
            d['diff_encoding'] = kw['encoding']

        if 'line_endings' in kw:
            d['diff_line_endings'] = kw['line_endings']

        if 'diff_type' in kw:
            d['diff_type'] = kw['diff_type']
    else:
        if r == 6:
            d['diff'] = b''

        _maybe(d, draw, 'diff_encoding', st.sampled_from(['utf-8',
                                                          'utf-16']), 3)
        _maybe(d, draw, 'diff_line_endings', st.sampled_from(['unix',
                                                              'dos']), 3)
        _maybe(d, draw, 'diff_type', st.sampled_from(['text', 'binary']), 3)

    return d


@st.composite
def trees(draw, max_changes=4, max_files=3, min_changes=0,
          always_serialisable=False):
    main = {}
    _maybe(main, draw, 'encoding', _enc, 1)
    main_eff = main.get('encoding', 'utf-8')
    draw(_preamble_attrs(main, main_eff))
    draw(_meta_attrs(main, p_present=5))
    changes = []

    nchanges = draw(st.sampled_from(
        [n for n in (0, 1, 1, 2, 2, 3, 3, 4, 4)
         if min_changes <= n <= max_changes] or [min_changes]))

    for _ in range(nchanges):
        ca = {}
        _maybe(ca, draw, 'encoding', _enc, 2)
        ceff = ca.get('encoding') or main_eff
        draw(_preamble_attrs(ca, ceff))
        draw(_meta_attrs(ca, p_present=5))
        files = []
        lo = 1 if always_serialisable else 0

        for _f in range(draw(st.integers(lo, max_files))):
            fa = {}
            _maybe(fa, draw, 'encoding', _enc, 2)
            draw(_meta_attrs(fa, p_present=10 if always_serialisable
                             else 8))
            draw(_diff_attrs(fa))
            files.append(fa)

        changes.append({'attrs': ca, 'files': files})

    if not always_serialisable and draw(st.sampled_from(range(60))) == 0:
        # an encoding option that is the empty string: nothing a header
        # can carry, so nothing that may be written (or silently left out)
        holders = [main] + [c['attrs'] for c in changes] + \
            [f for c in changes for f in c['files']]
        holder = draw(st.sampled_from(holders))
        key = draw(st.sampled_from(['encoding', 'meta_encoding',
                                    'preamble_encoding']))

        if key != 'preamble_encoding' or holder.get('preamble'):
            if key != 'meta_encoding' or holder.get('meta'):
                if key != 'preamble_encoding' or not any(
                        holder is f for c in changes for f in c['files']):
                    holder[key] = ''

    return {
        'main': main,
        'changes': changes,
        # how attributes reach the tree: constructor keywords or assignment
        'via_constructor': draw(st.booleans()),
    }


# ---------------------------------------------------------------------------
# Building
# ---------------------------------------------------------------------------

def build(tree, ordered=True, probe=False, staged=False):
    """Build the tree through the public API only.  Mutable arguments are
    deep-copied so the harness never shares an object between sections."""
    ns = sut.load()
    ctor = tree.get('via_constructor', True)

    def make(factory, attrs):
        attrs = {k: (gen._fresh(v) if k != 'preamble' else v)
                 for k, v in copy.deepcopy(attrs).items()}

        if 'meta' in attrs:
            attrs['meta'] = materialize(attrs['meta'])
            flavour = len(repr(attrs['meta'])) % 4

            if flavour == 0 and not ordered:
                # (OrderedDicts in different orders are unequal objects)
                flavour = 1

            if flavour < 2 and isinstance(attrs['meta'], dict) and \
                    not has_not_json(tree_meta_marker(attrs['meta'])):
                attrs['meta'] = gen.as_other_mapping(attrs['meta'], flavour)

        if tree.get('attr_order') == 'reversed':
            attrs = dict(reversed(list(attrs.items())))

        if staged and not ctor:
            # every content first holds something else, gets its options,
            # and only then its final value
            first = {'preamble': 'first\r\ndraft', 'meta': {'draft': 1},
                     'diff': b'draft\r\n'}
            order = ([(k, first[k]) for k in attrs if k in first] +
                     [(k, v) for k, v in attrs.items() if k not in first] +
                     [(k, v) for k, v in attrs.items() if k in first])
            obj = factory()

            for k, v in order:
                setattr(obj, k, copy.deepcopy(v) if k in first else v)

            return obj

        if ctor:
            return factory(**attrs)

        obj = factory()

        for k, v in attrs.items():
            setattr(obj, k, v)

        return obj

    diffx = make(ns.DiffX, tree['main'])

    def look():
        # what a caller may do while a tree is being put together
        if probe:
            try:
                diffx.to_bytes()
            except Exception:
                pass

            repr(diffx)
            diffx == diffx

            for c in diffx.changes:
                list(c.subsections)

    look()

    for c in tree['changes']:
        change = make(diffx.add_change, c['attrs'])
        look()

        for f in c['files']:
            make(change.add_file, f)
            look()

    return diffx


# ---------------------------------------------------------------------------
# Snapshots (my own recursive copy; never the library's __eq__)
# ---------------------------------------------------------------------------

def snapshot(section):
    """(class name, section id, options, content, [children])."""
    name = type(section).__name__
    sid = getattr(section, 'section_id', None)
    options = copy.deepcopy(dict(section.options))
    children = []
    content = None

    if hasattr(section, 'changes'):
        sid = 'diffx'     # the root's section_id attribute is not judged
        children = [snapshot(section.preamble_section),
                    snapshot(section.meta_section)] + \
                   [snapshot(c) for c in section.changes]
    elif hasattr(section, 'files'):
        children = [snapshot(section.preamble_section),
                    snapshot(section.meta_section)] + \
                   [snapshot(f) for f in section.files]
    elif hasattr(section, 'diff_section'):
        children = [snapshot(section.meta_section),
                    snapshot(section.diff_section)]
    else:
        content = copy.deepcopy(section.content)

    return [name, sid, options, content, children]


def snap_eq(a, b):
    """Type-strict structural equality of snapshots (all mappings count as
    one type: a dict subclass a caller put in stays what it is)."""
    if isinstance(a, dict) and isinstance(b, dict):
        return (set(a) == set(b) and
                all(snap_eq(a[k], b[k]) for k in a))

    if type(a) is not type(b):
        return False

    if isinstance(a, (list, tuple)):
        return len(a) == len(b) and all(snap_eq(x, y) for x, y in zip(a, b))

    if isinstance(a, dict):
        return (set(a) == set(b) and
                all(snap_eq(a[k], b[k]) for k in a))

    if isinstance(a, float):
        return a == b or (a != a and b != b)

    return a == b


def snap_diff(a, b, path='root'):
    """First difference between two snapshots, for messages."""
    if type(a) is not type(b) and not (isinstance(a, dict) and
                                       isinstance(b, dict)):
        return '%s: %r vs %r' % (path, _short(a), _short(b))

    if isinstance(a, (list, tuple)):
        if len(a) != len(b):
            return '%s: lengths %d vs %d' % (path, len(a), len(b))

        for i, (x, y) in enumerate(zip(a, b)):
            d = snap_diff(x, y, '%s[%d]' % (path, i))

            if d:
                return d

        return None

    if isinstance(a, dict):
        if set(a) != set(b):
            return '%s: keys %r vs %r' % (path, sorted(a, key=repr),
                                          sorted(b, key=repr))

        for k in a:
            d = snap_diff(a[k], b[k], '%s[%r]' % (path, k))

            if d:
                return d

        return None

    if a != b:
        return '%s: %r vs %r' % (path, _short(a), _short(b))

    return None


def _short(v):
    s = repr(v)
    return s if len(s) < 160 else s[:160] + '...'


# ---------------------------------------------------------------------------
# The model: what serialising a tree means
# ---------------------------------------------------------------------------

def _content_calls(attrs, kinds):
    """Writer calls for the content sections of one container (empty content
    sections are omitted)."""
    calls = []

    if 'preamble' in kinds and attrs.get('preamble'):
        kw = {'text': attrs['preamble']}

        for a, k in (('preamble_encoding', 'encoding'),
                     ('preamble_indent', 'indent'),
                     ('preamble_line_endings', 'line_endings'),
                     ('preamble_mimetype', 'mimetype')):
            if a in attrs:
                kw[k] = attrs[a]

        calls.append(['preamble', kw])

    if attrs.get('meta'):
        kw = {'metadata': attrs['meta']}

        if 'meta_encoding' in attrs:
            kw['encoding'] = attrs['meta_encoding']

        calls.append(['meta', kw])

    if 'diff' in kinds and attrs.get('diff'):
        kw = {'content': attrs['diff']}

        for a, k in (('diff_encoding', 'encoding'),
                     ('diff_line_endings', 'line_endings'),
                     ('diff_type', 'diff_type')):
            if a in attrs:
                kw[k] = attrs[a]

        calls.append(['diff', kw])

    return calls


def program_of(tree):
    """The writer program a tree stands for."""
    main = tree['main']
    calls = _content_calls(main, ('preamble',))

    for c in tree['changes']:
        ca = c['attrs']
        calls.append(['change', {'encoding': ca['encoding']}
                      if 'encoding' in ca else {}])
        calls.extend(_content_calls(ca, ('preamble',)))

        for fa in c['files']:
            calls.append(['file', {'encoding': fa['encoding']}
                          if 'encoding' in fa else {}])
            calls.extend(_content_calls(fa, ('diff',)))

    return {'encoding': main.get('encoding', 'utf-8'), 'calls': calls}


def serialisable(program):
    """Model decision: (True, None) or (False, reason)."""
    w = spec.Walker(program['encoding'])

    for op, kw in program['calls']:
        if not w.accepts(op):
            return False, 'order: %s after %s' % (w.section_id(op), w.prev)

        w.advance(op, kw)

    for op, kw in program['calls']:
        if op == 'meta' and has_not_json(kw.get('metadata')):
            return False, 'metadata: not JSON'

        if kw.get('encoding') == '':
            return False, 'option: empty encoding'

    if program.get('encoding') == '':
        return False, 'option: empty encoding'

    try:
        spec.ref_segments(program)
    except spec.Unencodable:
        return False, 'unencodable text'

    return True, None


def _default_section(name):
    if name == 'DiffXPreambleSection':
        return {}, None

    if name == 'DiffXMetaSection':
        return {'format': 'json'}, {}

    return {}, None


def expected_snapshot(tree):
    """Snapshot that parsing the serialisation of ``tree`` must give: the
    original after the documented normalisation only."""
    main_enc = tree['main'].get('encoding', 'utf-8')

    def preamble(attrs, level):
        sid = '.' * level + 'preamble'
        text = attrs.get('preamble')

        if not text:
            return ['DiffXPreambleSection', sid, {}, None, []]

        le = attrs.get('preamble_line_endings') or spec.detect_kind(
            text, '\n', '\r\n')
        nl = spec.nl_str(le)
        opts = {'indent': attrs.get('preamble_indent', 4),
                'line_endings': le}

        if 'preamble_encoding' in attrs:
            opts['encoding'] = attrs['preamble_encoding']

        if 'preamble_mimetype' in attrs:
            opts['mimetype'] = attrs['preamble_mimetype']

        return ['DiffXPreambleSection', sid, opts,
                text if text.endswith(nl) else text + nl, []]

    def meta(attrs, level):
        sid = '.' * level + 'meta'
        value = attrs.get('meta')

        if not value:
            return ['DiffXMetaSection', sid, {'format': 'json'}, {}, []]

        opts = {'format': 'json'}

        if 'meta_encoding' in attrs:
            opts['encoding'] = attrs['meta_encoding']

        return ['DiffXMetaSection', sid, opts, copy.deepcopy(value), []]

    def diff(attrs, level):
        sid = '.' * level + 'diff'
        content = attrs.get('diff')

        if not content:
            return ['DiffXFileDiffSection', sid, {}, None, []]

        enc = attrs.get('diff_encoding')
        lf, crlf = spec.nl_bytes('unix', enc), spec.nl_bytes('dos', enc)
        le = attrs.get('diff_line_endings') or spec.detect_kind(content, lf,
                                                                crlf)
        nl = lf if le == 'unix' else crlf
        opts = {'line_endings': le}

        if enc is not None:
            opts['encoding'] = enc

        if 'diff_type' in attrs:
            opts['type'] = attrs['diff_type']

        return ['DiffXFileDiffSection', sid, opts,
                content if content.endswith(nl) else content + nl, []]

    children = [preamble(tree['main'], 1), meta(tree['main'], 1)]

    for c in tree['changes']:
        ca = c['attrs']
        cch = [preamble(ca, 2), meta(ca, 2)]

        for fa in c['files']:
            fopts = {'encoding': fa['encoding']} if 'encoding' in fa else {}
            cch.append(['DiffXFileSection', '..file', fopts, None,
                        [meta(fa, 3), diff(fa, 3)]])

        copts = {'encoding': ca['encoding']} if 'encoding' in ca else {}
        children.append(['DiffXChangeSection', '.change', copts, None, cch])

    return ['DiffX', 'diffx', {'encoding': main_enc, 'version': '1.0'},
            None, children]


def tree_features(tree):
    nchanges = len(tree['changes'])
    nfiles = sum(len(c['files']) for c in tree['changes'])
    nondefault = 0

    def count(attrs):
        n = 0

        for k in attrs:
            if k not in ('preamble', 'meta', 'diff'):
                n += 1

        return n

    nondefault += count(tree['main'])

    for c in tree['changes']:
        nondefault += count(c['attrs'])

        for f in c['files']:
            nondefault += count(f)

    labels = ['changes-%d' % min(nchanges, 4), 'files-%d' % min(nfiles, 6)]
    nontrivial = (nchanges >= 2 or nfiles >= 2) and nondefault >= 1
    return labels, nontrivial


def rebuild(snap):
    """A fresh tree with exactly the state a snapshot describes, built
    through the public API (options dictionaries and content attributes)."""
    ns = sut.load()
    diffx = ns.DiffX()

    def fill(section, s):
        section.options.clear()
        section.options.update(copy.deepcopy(s[2]))

    def fill_content(section, s):
        fill(section, s)

        if s[3] is not None:
            section.content = copy.deepcopy(s[3])

    fill(diffx, snap)
    kids = snap[4]
    fill_content(diffx.preamble_section, kids[0])
    fill_content(diffx.meta_section, kids[1])

    for cs in kids[2:]:
        change = diffx.add_change()
        fill(change, cs)
        fill_content(change.preamble_section, cs[4][0])
        fill_content(change.meta_section, cs[4][1])

        for fs in cs[4][2:]:
            f = change.add_file()
            fill(f, fs)
            fill_content(f.meta_section, fs[4][0])
            fill_content(f.diff_section, fs[4][1])

    return diffx


def content_list(snap):
    """[(section id, content)] of the non-empty content sections and the
    containers of a snapshot, in file order (what a streaming reader of the
    serialised tree would yield)."""
    out = []

    def walk(s):
        name, sid, opts, content, children = s

        if children or name in ('DiffX', 'DiffXChangeSection',
                                'DiffXFileSection'):
            out.append((sid, None))

            for c in children:
                walk(c)
        elif content:
            out.append((sid, content))

    walk(snap)
    return out
