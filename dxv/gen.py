"""Shared Hypothesis strategies (DESIGN.md section 4).

Everything generated is JSON-serialisable through engine.to_jsonable, so a
case is its own replay file.  All random choices are Hypothesis draws.
"""

import copy
import functools

from hypothesis import strategies as st

from dxv import spec

POOL = list(spec.POOL)
MULTIBYTE = ('utf-16', 'utf-16-le', 'utf-16-be', 'utf-32', 'utf-32-le',
             'utf-32-be')
INDENTS = (0, 1, 2, 4, 4, 7, 13, 64, 200, 257, 1000)

HEADERISH = [
    '#diffx: version=1.0', '#diffx: encoding=utf-8, version=1.0',
    '#.change:', '#..file:', '#...diff: length=3', '#.meta: length=2',
    '#..meta: format=json, length=5', '#.preamble: indent=4, length=10',
    '#..preamble: length=1', '#...meta: format=json, length=12',
]
HUNKISH = [
    '@@ -1,2 +1,2 @@', '@@ -0,0 +1 @@ ctx', '+added', '-removed',
    ' context', '--- a/file', '+++ b/file', '\\ No newline at end of file',
    'diff --git a/x b/x', 'index 123..456 100644', 'Binary files differ',
    'literal 123', 'delta 7', 'GIT binary patch', '+#diffx: version=1.0',
    '+    # retry later...', ' and so on...', '...', '-...',
]
SPECIAL = [
    '﻿bom first', 'mid﻿bom', 'nul\x00byte', 'lone\rcr',
    '    indented', ' x', '  ', '\t tab', '',
    'ੁ\x00', 'Ā', 'ഊ', '上', '਀', '਍',
    'aੁb', 'ਊ', '഍ਊ', 'ੁ　', '䄀ੁ',
    'sep line', 'nel\u0085x', 'vt\x0bx', 'ff\x0cx',
    'é', 'Жя', '中文', '{"json": 1}', '}', '..', '...',
    'ctrl\x1az', '\u041a\u0438\u0440', '\x1a',
    '\ufffd replacement', 'mid\ufffddle', '>From the archive', '>>From nested',
    '@@ -1,2 +1,2', '@@@ -1 -1 +1',
    'e\u0301 decomposed', '\u212b \u2126 compat', '\u1100\u1161 jamo',
    'a\u0323\u0307 marks', '\ufb01 ligature', '\u00c5',
]
MARKDOWN = [
    '```python\nprice = $5 ? `x`\n```', '```c\n#include <x>\n$ @ `\n```',
    '~~~json\n{$?}\n~~~', '```sh\necho "$HOME" \\\n```', '# Heading',
    '* item', '> quote', '[link](http://x)', '**bold** _it_', '```',
    '    code', '| a | b |', '<b>html</b>', '![img](x.png)',
]
WORDS = ['alpha', 'beta gamma', 'Fix the bug', 'x', 'line', 'a b c',
         'The quick brown fox', '0', 'end.']


@functools.lru_cache(maxsize=None)
def _lines_for(enc):
    out = []

    for pool in (HEADERISH, HUNKISH, SPECIAL, WORDS, MARKDOWN):
        for ln in pool:
            try:
                if ln.encode(enc).decode(enc) == ln:
                    out.append(ln)
            except Exception:
                pass

    return tuple(out)


@functools.lru_cache(maxsize=None)
def _alphabet_for(enc):
    a = spec.alphabet_for(enc)
    # line structure is added explicitly
    return ''.join(c for c in a if c not in '\r\n')


def line_st(enc):
    pool = _lines_for(enc)
    alpha = _alphabet_for(enc)
    return st.one_of(
        st.sampled_from(pool),
        st.sampled_from(pool),
        st.text(alphabet=alpha, max_size=12),
    )


TERMS = ['\n', '\n', '\n', '\r\n', '\r\n', '\r']
LONG_SIZES = [94, 95, 96, 97, 191, 192, 193, 4094, 4095, 4096, 4097, 8191,
              8192, 8193, 94, 96, 4095, 4096, 65535, 65536, 65537, 70000]


@functools.lru_cache(maxsize=None)
def _encodable_in(s, enc):
    try:
        return s.encode(enc).decode(enc) == s
    except Exception:
        return False


@st.composite
def texts(draw, enc, max_lines=6, nonempty=True):
    """Text encodable in ``enc``: lines x terminators from {LF, CRLF, CR},
    final terminator present or absent."""
    n = draw(st.integers(1, max_lines))
    lines = draw(st.lists(line_st(enc), min_size=n, max_size=n))

    if draw(st.integers(0, 24)) == 0:
        # many short lines
        n = draw(st.sampled_from([99, 100, 101, 999, 1000, 1001]))
        lines = ['l%d' % i for i in range(n)]

    style = draw(st.sampled_from(['lf', 'crlf', 'mixed', 'mixed']))
    parts = []

    for i, ln in enumerate(lines):
        parts.append(ln)

        if i < n - 1 or draw(st.booleans()):
            if style == 'lf':
                parts.append('\n')
            elif style == 'crlf':
                parts.append('\r\n')
            else:
                parts.append(draw(st.sampled_from(TERMS)))

    # size boundaries: a line longer than the reader's read-ahead block,
    # than a 4 KiB / 8 KiB buffer, than a 64 KiB block
    if draw(st.integers(0, 11)) == 0:
        k = draw(st.sampled_from(LONG_SIZES))
        i = draw(st.sampled_from([0, 0, n - 1, draw(st.integers(0, n - 1))]))
        idxs = [j for j, p_ in enumerate(parts) if p_ not in TERMS]
        ch = draw(st.sampled_from(['L', 'L', '中', 'é', 'Ж']))

        if not _encodable_in(ch, enc):
            ch = 'L'
        elif ch != 'L':
            k = min(k, 200)

        parts[idxs[min(i, len(idxs) - 1)]] = ch * k

        if draw(st.booleans()):
            # ... followed by a line that starts with a space
            j = idxs.index(idxs[min(i, len(idxs) - 1)])

            if j + 1 < len(idxs):
                parts[idxs[j + 1]] = ' lead'
            else:
                parts.extend(['\n', ' lead'])

        if i == 0 and draw(st.booleans()):
            # long first line ending in CRLF
            parts = [('\r\n' if p_ in TERMS else p_) for p_ in parts]

            if len(parts) == 1:
                parts.append('\r\n')

    # fixed-width multi-byte codecs: a character pair whose code units
    # look like an encoded LF across the character boundary, placed before
    # the first real line break
    if enc in MULTIBYTE and draw(st.integers(0, 3)) == 0:
        trap = draw(st.sampled_from(['ੁ\x00', 'ੁ　', '䄀ੁ',
                                     '\u0d0a\u0000', '\u0a0d\u0a0a',
                                     # ... followed by a 0x20 byte
                                     '\u0a41\u2000x', '\u4100\u0a20x',
                                     '\u0a41\u2000\u0a41\u2000']))

        if _encodable_in(trap, enc):
            idxs = [j for j, p_ in enumerate(parts) if p_ not in TERMS]
            parts[idxs[0]] = trap + parts[idxs[0]]

            if draw(st.booleans()):
                parts = [('\r\n' if p_ in TERMS else p_) for p_ in parts]

    text = ''.join(parts)

    if draw(st.sampled_from(range(16))) == 0:
        # an empty first line; a lone CR / LF / CRLF / nothing at the end
        text = (draw(st.sampled_from(['\n', '\r\n', '\n\n'])) +
                (text.rstrip('\r\n') or 'x') +
                draw(st.sampled_from(['\r', '\r', '\n', '\r\n', ''])))

    # a text that itself starts with U+FEFF (not a codec BOM)
    if draw(st.integers(0, 9)) == 0 and _encodable_in('\ufeff', enc):
        text = '\ufeff' + text

    if nonempty and not text:
        text = 'x'

    return text


# -- JSON ----------------------------------------------------------------

_json_leaf = st.one_of(
    st.none(), st.booleans(),
    st.integers(-10, 1000), st.integers(2 ** 63, 2 ** 70),
    st.floats(allow_nan=False, allow_infinity=False, width=64),
    st.sampled_from(['', 'value', 'é', '中', 'a\nb', 'q"uote', 'back\\slash',
                     '#.change:', '\x00', '\x7f', 'tab\t', '﻿',
                     '\ud800', 'lone\udc80', '\udfffend',
                     ' ']),
    st.text(max_size=8),
)
_json_key = st.one_of(
    st.sampled_from(['path', 'stats', 'id', 'k', 'key with space', 'é',
                     'sur\udc81',
                     '', 'a', 'b', 'z', 'A', '1', 'revision', 'op']),
    st.text(max_size=5),
)


_nonfinite = st.sampled_from([float('inf'), float('-inf'), float('nan'),
                              1e308, -1e-320])


def json_values(max_leaves=8, nonfinite=False):
    leaf = _json_leaf

    if nonfinite:
        leaf = st.one_of(_json_leaf, _json_leaf, _json_leaf, _json_leaf,
                         _nonfinite)

    return st.recursive(
        leaf,
        lambda children: st.one_of(
            st.lists(children, max_size=3),
            st.dictionaries(_json_key, children, max_size=3)),
        max_leaves=max_leaves)


WIDE_JSON = {
    # flat, but with 2 600 containers (more than any recursion limit in
    # effect while a check runs)
    'rows': [[i, {'n': i}] for i in range(1000)],
    'index': {'k%d' % i: [] for i in range(600)},
}


def json_objects(max_leaves=8, min_size=1, nonfinite=False):
    small = st.dictionaries(_json_key, json_values(max_leaves, nonfinite),
                            min_size=min_size, max_size=4)
    return st.builds(
        lambda v, k: WIDE_JSON if k == 0 else
        dict(v, path={'old': 'src/a.c', 'new': 'src/a.c'}) if k in (1, 2, 3)
        else v, small, st.sampled_from(range(150)))


# -- writer call arguments ------------------------------------------------

def opt(strategy, p_absent=0.5):
    """Either the sentinel ABSENT or a value."""
    return st.one_of(st.just(ABSENT), strategy) if p_absent >= 0.5 else \
        st.one_of(st.just(ABSENT), strategy, strategy)


ABSENT = '$absent'


def _put(d, key, value):
    if value != ABSENT:
        d[key] = value


enc_choice = st.one_of(st.just(ABSENT), st.just(ABSENT),
                       st.sampled_from(POOL))


@st.composite
def preamble_kwargs(draw, eff_parent):
    kw = {}
    own = draw(enc_choice)
    _put(kw, 'encoding', own)
    eff = own if own != ABSENT else eff_parent
    kw['text'] = draw(texts(eff))
    _put(kw, 'indent', draw(st.one_of(st.just(ABSENT),
                                      st.sampled_from(INDENTS))))
    _put(kw, 'line_endings', draw(st.sampled_from([ABSENT, ABSENT, 'unix',
                                                   'dos'])))
    _put(kw, 'mimetype', draw(st.sampled_from([ABSENT, ABSENT, 'text/plain',
                                               'text/markdown'])))

    if kw.get('mimetype') == 'text/markdown' and draw(st.booleans()):
        # a text that really is Markdown
        md = [m for m in MARKDOWN if _encodable_in(m, eff)]

        if md:
            lines = draw(st.lists(st.sampled_from(md), min_size=1,
                                  max_size=5))
            kw['text'] = '\n'.join(lines) + draw(st.sampled_from(['', '\n']))

    return kw


@st.composite
def meta_kwargs(draw, eff_parent):
    kw = {'metadata': draw(json_objects())}
    _put(kw, 'encoding', draw(enc_choice))
    _put(kw, 'line_endings', draw(st.sampled_from(
        [ABSENT, ABSENT, ABSENT, ABSENT, ABSENT, 'dos', 'unix'])))
    return kw


DIFF_ENCS = [ABSENT, ABSENT, ABSENT, 'utf-8', 'latin-1', 'utf-16',
             'utf-16-le', 'utf-32-be', 'cp037', 'utf-32']


@st.composite
def diff_kwargs(draw):
    kw = {}
    own = draw(st.sampled_from(DIFF_ENCS))
    _put(kw, 'encoding', own)
    mode = draw(st.sampled_from(['text', 'text', 'text', 'binary']))

    if mode == 'binary':
        content = draw(st.binary(min_size=1, max_size=40))
    else:
        enc = own if own != ABSENT else draw(
            st.sampled_from(['utf-8', 'latin-1', 'ascii']))
        text = draw(texts(enc, max_lines=5))
        content = text.encode(enc)

        if own in ('utf-16', 'utf-32'):
            how = draw(st.integers(0, 3))

            if how == 0:
                # same codec family without the BOM
                content = text.encode(own + '-le')
            elif how == 1:
                # the other byte order, announced by its BOM
                content = ('\ufeff' + text).encode(own + '-be')

    if own in MULTIBYTE and mode == 'text' and \
            draw(st.sampled_from(range(6))) == 0:
        # a stray byte in front: the length is no multiple of the code
        # unit, the content still ends in the encoded newline
        content = b'x' + content

    kw['content'] = content
    _put(kw, 'diff_type', draw(st.sampled_from([ABSENT, ABSENT, 'text',
                                                'binary'])))
    _put(kw, 'line_endings', draw(st.sampled_from([ABSENT, ABSENT, 'unix',
                                                   'dos'])))
    return kw


@st.composite
def programs(draw, max_changes=3, max_files=3, pool=None):
    """Well-ordered writer programs, built by walking the section table."""
    encs = pool or POOL
    main = draw(st.sampled_from(['utf-8', 'utf-8', 'utf-8'] + list(encs)))
    w = spec.Walker(main)
    calls = []

    def add(op, kw):
        calls.append([op, kw])
        w.advance(op, kw)

    def container_kw():
        kw = {}
        _put(kw, 'encoding', draw(st.one_of(st.just(ABSENT), st.just(ABSENT),
                                            st.sampled_from(encs))))
        return kw

    if draw(st.booleans()):
        add('preamble', draw(preamble_kwargs(w.enc[-1])))

    if draw(st.booleans()):
        add('meta', draw(meta_kwargs(w.enc[-1])))

    if draw(st.integers(0, 14)) == 0:
        # a wide file: many changes / files
        max_changes, max_files = max_changes * 4, max_files * 2

    nchanges = draw(st.integers(1, max_changes))

    for _c in range(nchanges):
        add('change', container_kw())

        if draw(st.booleans()):
            add('preamble', draw(preamble_kwargs(w.enc[-1])))

        has_meta = draw(st.booleans())

        if has_meta:
            add('meta', draw(meta_kwargs(w.enc[-1])))

        lo = 0 if (has_meta and draw(st.integers(0, 7)) == 0) else 1
        nfiles = draw(st.integers(lo, max_files))

        for _f in range(nfiles):
            add('file', container_kw())
            add('meta', draw(meta_kwargs(w.enc[-1])))

            if draw(st.booleans()):
                add('diff', draw(diff_kwargs()))

    if draw(st.sampled_from(range(24))) == 0:
        # the program stops right after opening a container
        add('change', container_kw())

    return {'encoding': main, 'calls': calls}


def program_features(program):
    """Class labels + the C01 non-triviality rule."""
    calls = program['calls']
    main = program['encoding']
    labels = set()
    ncontent = 0
    nchanges = 0

    for op, kw in calls:
        if op == 'change':
            nchanges += 1

        enc = kw.get('encoding')

        if enc is not None and enc != main:
            labels.add('encoding-differs-from-main')

        if enc in MULTIBYTE:
            labels.add('multibyte-codec')

        if op in ('preamble', 'meta', 'diff'):
            ncontent += 1

        if op == 'preamble':
            if kw.get('indent', 4) not in (0, 4):
                labels.add('unusual-indent')

            t = kw['text']

            if '#' in t or '@@' in t or '\n+' in t or '\n-' in t:
                labels.add('header-or-hunk-like-content')

            if '\r' in t.replace('\r\n', '') or \
                    ('\r\n' in t and '\n' in t.replace('\r\n', '')):
                labels.add('mixed-newlines')

            if '﻿' in t:
                labels.add('bom-in-content')

    if main in MULTIBYTE:
        labels.add('multibyte-codec')

    if nchanges >= 2:
        labels.add('second-change')

    nontrivial = ncontent >= 2 and bool(labels)
    return sorted(labels), nontrivial


def _fresh(v):
    """A string equal to v but a different object, like a value that was
    parsed or computed at run time (never the interned literal)."""
    if type(v) is str and v:
        return ''.join([v[:1], v[1:]])

    return v


def as_other_mapping(v, flavour):
    """The same JSON value with every object turned into a dict subclass
    filled in reverse order (what a caller who builds metadata with
    OrderedDict / defaultdict hands over)."""
    import collections

    if isinstance(v, dict):
        items = [(k, as_other_mapping(x, flavour))
                 for k, x in reversed(list(v.items()))]

        if flavour == 0:
            return collections.OrderedDict(items)

        d = collections.defaultdict(list)
        d.update(items)
        return d

    if isinstance(v, list):
        return [as_other_mapping(x, flavour) for x in v]

    return v


def call_writer(writer, op, kw):
    """Apply one program call to a DiffXWriter."""
    # the writer gets its own copies: what the program says was passed
    # stays what was passed, whatever the writer does to its arguments
    kw = {k: (_fresh(v) if k in ('encoding', 'line_endings', 'mimetype',
                                 'diff_type', 'meta_format')
              else copy.deepcopy(v))
          for k, v in kw.items()}

    # every third call goes through the documented positional order
    positional = len(repr(sorted(kw))) % 3 == 0

    if op == 'change':
        if positional and 'encoding' in kw:
            return writer.new_change(kw['encoding'])

        return writer.new_change(**kw)

    if op == 'file':
        if positional and 'encoding' in kw:
            return writer.new_file(kw['encoding'])

        return writer.new_file(**kw)

    if op == 'preamble':
        text = kw.pop('text')

        if positional:
            return writer.write_preamble(text, kw.get('encoding'),
                                         kw.get('indent', 4),
                                         kw.get('line_endings'),
                                         kw.get('mimetype'))

        return writer.write_preamble(text, **kw)

    if op == 'meta':
        md = kw.pop('metadata')
        flavour = len(repr(md)) % 4

        if flavour < 2 and isinstance(md, dict):
            md = as_other_mapping(md, flavour)

        if positional and 'line_endings' not in kw:
            return writer.write_meta(md, kw.get('encoding'),
                                     kw.get('meta_format', 'json'))

        return writer.write_meta(md, **kw)

    if op == 'diff':
        content = kw.pop('content')

        if positional:
            return writer.write_diff(content, kw.get('diff_type'),
                                     kw.get('encoding'),
                                     kw.get('line_endings'))

        return writer.write_diff(content, **kw)

    raise ValueError(op)
