"""atheris (libFuzzer) target for C08: the whole error contract is the
in-target oracle.  Run by dxv.props.c08 (thorough tier):

    python -m dxv.fuzz_c08 <corpus dir> -runs=N -seed=S -dict=... ...

A violating input is saved as $DXV_FUZZ_OUT/violation-<n> and the campaign
goes on (each distinct bucket is saved once), so that one shallow defect does
not end the campaign.
"""

import hashlib
import os
import sys


def main():
    import atheris

    from dxv import sut
    sut.load()

    with atheris.instrument_imports(include=['pydiffx']):
        # re-import under instrumentation
        for name in [m for m in sys.modules if m.startswith('pydiffx')]:
            del sys.modules[name]

        sut._loaded = None
        sut.load()

    from dxv import engine
    from dxv.props import c08

    out = os.environ.get('DXV_FUZZ_OUT', '.')
    seen = set()

    def test_one(data):
        st = engine.Stats()
        c08.judge(bytes(data), st, {'data': bytes(data)})

        for kind in st.buckets:
            if kind not in seen:
                seen.add(kind)
                h = hashlib.sha1(kind.encode()).hexdigest()[:10]

                with open(os.path.join(out, 'violation-%s' % h), 'wb') as fp:
                    fp.write(bytes(data))

    atheris.Setup(sys.argv, test_one)
    atheris.Fuzz()


if __name__ == '__main__':
    main()
