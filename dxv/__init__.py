"""dxv -- property-based testing / fuzzing machinery for beanbaginc/diffx.

See /verif/DESIGN.md.  Everything here runs under /venv/bin/python and imports
the code under test from $VERIF_REPO/python (default /repo/python), i.e. from
the current working tree.
"""
