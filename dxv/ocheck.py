"""What a handful of fixed inputs give, as one JSON document on stdout.

Run by the `interpreter-flags` checks (C16, C17) in-process and in children
started with ``python -O``, with ``python -bb`` and with DEBUG logging
switched on, and compared: nothing the library computes may depend on its
``assert`` statements being executed, on a bytes object being compared with a
str, or on whether anybody listens to its log messages.

    python [-O] -m dxv.ocheck          (VERIF_REPO selects the tree)
"""

import glob
import hashlib
import io
import json
import os
import sys

VERIF = os.path.dirname(os.path.dirname(os.path.abspath(__file__)))


def _digest(obj):
    return hashlib.sha256(repr(obj).encode('utf-8', 'backslashreplace')) \
        .hexdigest()[:20]


def _records(ns, data):
    try:
        return [sorted((k, repr(v)) for k, v in r.items())
                for r in ns.DiffXReader(io.BytesIO(data))]
    except Exception as e:
        return 'raised %s' % type(e).__name__


def compute(order=('files', 'split', 'writer')):
    from dxv import sut
    ns = sut.load()
    out = {}
    files = sorted(glob.glob(os.path.join(VERIF, 'corpus', '*.diff')) +
                   glob.glob(os.path.join(VERIF, 'corpus', 'small',
                                          '*.diffx')))
    default = sut.get_chunk_size()

    def files_part():

        for path in files:
            name = os.path.basename(path)

            with open(path, 'rb') as fp:
                data = fp.read()

            out[name + ':records'] = _digest(_records(ns, data))

            if default is not None:
                for block in (1, 2, 7, 4096):
                    sut.set_chunk_size(block)

                    try:
                        out['%s:records@%d' % (name, block)] = \
                            _digest(_records(ns, data))
                    finally:
                        sut.set_chunk_size(default)

            # a longer first header moves every later header
            nl = data.find(b'\n')

            for pad in (1, 50, 95, 96, 97):
                head = data[:nl].rstrip(b'\r')
                tail = data[len(head):]
                sep = b', ' if b'=' in head else b' '
                padded = head + sep + b'pad=' + b'x' * pad + tail
                out['%s:records+pad%d' % (name, pad)] = \
                    _digest(_records(ns, padded))

            try:
                tree = ns.DiffX.from_bytes(data)
                out[name + ':to_bytes'] = _digest(tree.to_bytes())
                tree.generate_stats()
                out[name + ':stats'] = _digest(sorted(
                    (k, repr(v)) for k, v in tree.meta.get('stats', {}).items()))
            except Exception as e:
                out[name + ':to_bytes'] = 'raised %s' % type(e).__name__

    def split_part():
        # the line splitter on its own
        newlines = [b'\n', b'\r\n', b'\n\x00', b'\r\x00\n\x00', b'\x00\n',
                    b'\x00\r\x00\n', b'\n\x00\x00\x00',
                    b'\r\x00\x00\x00\n\x00\x00\x00', b'\x25', b'\r\x25']
        split = ns.text.split_lines

        for nl in newlines:
            battery = [nl, b'a', b'a' + nl, b'a' + nl + b'b', nl + nl,
                       b'a' + nl + nl + b'b' + nl, b'\r' + nl, nl + b'\n',
                       b'x' * 100 + nl + b' y', b' ' + nl + b' ' + nl]

            for i, data in enumerate(battery):
                for keep in (True, False):
                    try:
                        res = repr(split(data, nl, keep))
                    except Exception as e:
                        res = 'raised %s' % type(e).__name__

                    out['split:%s:%d:%d' % (nl.hex(), i, keep)] = _digest(res)

    def writer_part():
        # the writer
        for enc in ('utf-8', 'utf-16', 'cp037'):
            stream = io.BytesIO()

            try:
                w = ns.DiffXWriter(stream, encoding=enc)
                w.write_preamble('summary\n\nbody \xe9', indent=2)
                w.write_meta({'k': [1, None, 'v']})
                w.new_change(encoding='latin-1')
                w.write_preamble('c\r\nd', line_endings='dos')
                w.new_file()
                w.write_meta({'path': 'f'}, encoding='utf-32-le')
                w.write_diff(b'--- a\n+++ b\n@@ -1 +1 @@\n-x\n+y')
                res = stream.getvalue()
            except Exception as e:
                res = 'raised %s' % type(e).__name__

            out['writer:%s' % enc] = _digest(res)

            try:
                lines = b'--- a\n+++ b\n@@ -1,2 +1,2 @@ ctx\n-x\n+y\n z\n'
                out['hunks:%s' % enc] = _digest(sorted(
                    ns.unified_diffs.get_unified_diff_hunks(
                        lines.split(b'\n')).items()))
            except Exception as e:
                out['hunks:%s' % enc] = 'raised %s' % type(e).__name__

    parts = {'files': files_part, 'split': split_part,
             'writer': writer_part}

    for name in order:
        parts[name]()

    return out


def in_process_variants(st, prefixes):
    """The same battery computed (a) in a second thread and (b) after
    calls that failed: identical results."""
    import threading
    from dxv import sut
    ns = sut.load()
    here = compute()
    n = 0

    def keep(k):
        return k.split(':')[0] in prefixes or (
            k.split(':')[1:2] and
            k.split(':')[1].split('@')[0].split('+')[0] in prefixes)

    box = {}

    def work():
        try:
            box['r'] = compute()
        except BaseException as e:        # reported below
            box['e'] = e

    t = threading.Thread(target=work)
    t.start()
    t.join()
    variants = [('in a second thread', box.get('r'), box.get('e'))]

    # calls that fail: nothing they switched on may stay on
    failures = []

    for make in (
            lambda: ns.DiffX.from_bytes(b'#diffx: version=9\n'),
            lambda: ns.text.split_lines(b'', b'\n'),
            lambda: ns.DiffXWriter(io.BytesIO(), version='2.0'),
            lambda: ns.unified_diffs.get_unified_diff_hunks(
                [b'@@ -1,5 +1,5 @@', b' x']),
            lambda: _failing_stats(ns)):
        try:
            make()
        except BaseException as e:
            failures.append(type(e).__name__)

    try:
        # (the line splitter first: nothing else has run since the failures)
        variants.append(('after %d failed calls' % len(failures),
                         compute(order=('split', 'writer', 'files')), None))
    except BaseException as e:
        variants.append(('after failed calls', None, e))

    for label, there, err in variants:
        keys = [k for k in sorted(here) if keep(k)]
        n += len(keys)

        if err is not None or there is None:
            st.violation('results-depend-on-thread-or-history',
                         '%s: %r' % (label, err), {'variant': label})
            continue

        diff = [k for k in keys if here.get(k) != there.get(k)]

        if diff:
            st.violation('results-depend-on-thread-or-history',
                         '%s: %d of %d results differ, e.g. %s'
                         % (label, len(diff), len(keys), diff[0]),
                         {'variant': label, 'key': diff[0]})

    return n


def _failing_stats(ns):
    tree = ns.DiffX()
    f = tree.add_change().add_file(meta={'path': 'p'})
    f.diff = b'@@ -1 +1 @@\r\n-a\r\n+b\r\n'
    f.diff_line_endings = 'dos'
    f.diff_encoding = 'no-such-codec'
    tree.generate_stats()


def compare(st, prefixes, HarnessError):
    """Run the battery here and in children started with -O and with -bb;
    report keys (restricted to ``prefixes``) whose results differ."""
    import subprocess
    here = compute()
    env = dict(os.environ, PYTHONPATH=VERIF + os.pathsep +
               os.environ.get('PYTHONPATH', ''), PYTHONDONTWRITEBYTECODE='1')
    env.pop('PYTHONOPTIMIZE', None)
    n = 0

    for flag, name in (('-O', 'assert-statements'),
                       ('-bb', 'bytes-str-comparisons'),
                       ('debug-logging', 'the-logging-level')):
        cmd = [sys.executable, flag, '-m', 'dxv.ocheck']
        cenv = env

        if flag == 'debug-logging':
            # an application that has switched DEBUG logging on
            cmd = [sys.executable, '-m', 'dxv.ocheck']
            cenv = dict(env, DXV_OCHECK_DEBUG_LOGGING='1')

        p = subprocess.run(cmd, env=cenv, cwd=VERIF, stdout=subprocess.PIPE,
                           stderr=subprocess.PIPE, timeout=600)

        if p.returncode != 0:
            raise HarnessError('python %s -m dxv.ocheck failed:\n%s' % (
                flag, p.stderr.decode('utf-8', 'replace')[-2000:]))

        there = json.loads(p.stdout.decode('utf-8'))

        if flag == '-O' and (not there['optimised'] or not __debug__):
            raise HarnessError('the -O comparison needs one optimised and '
                               'one ordinary interpreter')

        keys = [k for k in sorted(set(here) | set(there['results']))
                if k.split(':')[0] in prefixes or
                (k.split(':')[1:2] and
                 k.split(':')[1].split('@')[0].split('+')[0] in prefixes)]
        diff = [k for k in keys if here.get(k) != there['results'].get(k)]
        n += len(keys)

        if diff:
            k = diff[0]
            st.violation('results-depend-on-%s' % name,
                         '%d of %d results differ under python %s, e.g. '
                         '%s: %s vs %s' % (len(diff), len(keys), flag, k,
                                           here.get(k),
                                           there['results'].get(k)),
                         {'key': k, 'flag': flag})

    return n


if __name__ == '__main__':
    sys.path.insert(0, VERIF)

    if os.environ.get('DXV_OCHECK_DEBUG_LOGGING'):
        import logging
        logging.basicConfig(level=logging.DEBUG,
                            stream=open(os.devnull, 'w'))

    json.dump({'optimised': not __debug__, 'results': compute()},
              sys.stdout, sort_keys=True)
