"""What a handful of fixed inputs give, as one JSON document on stdout.

Run twice by C17's `optimised-interpreter` check -- in-process and in a child
started with ``python -O`` -- and compared: nothing the library computes may
depend on its ``assert`` statements being executed.

    python [-O] -m dxv.ocheck          (VERIF_REPO selects the tree)
"""

import glob
import hashlib
import io
import json
import os
import sys

VERIF = os.path.dirname(os.path.dirname(os.path.abspath(__file__)))


def _digest(obj):
    return hashlib.sha256(repr(obj).encode('utf-8', 'backslashreplace')) \
        .hexdigest()[:20]


def _records(ns, data):
    try:
        return [sorted((k, repr(v)) for k, v in r.items())
                for r in ns.DiffXReader(io.BytesIO(data))]
    except Exception as e:
        return 'raised %s' % type(e).__name__


def compute():
    from dxv import sut
    ns = sut.load()
    out = {}
    files = sorted(glob.glob(os.path.join(VERIF, 'corpus', '*.diff')) +
                   glob.glob(os.path.join(VERIF, 'corpus', 'small',
                                          '*.diffx')))
    default = sut.get_chunk_size()

    for path in files:
        name = os.path.basename(path)

        with open(path, 'rb') as fp:
            data = fp.read()

        out[name + ':records'] = _digest(_records(ns, data))

        if default is not None:
            for block in (1, 2, 7, 4096):
                sut.set_chunk_size(block)

                try:
                    out['%s:records@%d' % (name, block)] = \
                        _digest(_records(ns, data))
                finally:
                    sut.set_chunk_size(default)

        # a longer first header moves every later header
        nl = data.find(b'\n')

        for pad in (1, 50, 95, 96, 97):
            head = data[:nl].rstrip(b'\r')
            tail = data[len(head):]
            sep = b', ' if b'=' in head else b' '
            padded = head + sep + b'pad=' + b'x' * pad + tail
            out['%s:records+pad%d' % (name, pad)] = \
                _digest(_records(ns, padded))

        try:
            tree = ns.DiffX.from_bytes(data)
            out[name + ':to_bytes'] = _digest(tree.to_bytes())
            tree.generate_stats()
            out[name + ':stats'] = _digest(sorted(
                (k, repr(v)) for k, v in tree.meta.get('stats', {}).items()))
        except Exception as e:
            out[name + ':to_bytes'] = 'raised %s' % type(e).__name__

    return out


if __name__ == '__main__':
    sys.path.insert(0, VERIF)
    json.dump({'optimised': not __debug__, 'results': compute()},
              sys.stdout, sort_keys=True)
