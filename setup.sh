#!/bin/bash
# setup_cmd: offline; everything the checks need is pure Python under /verif/dxv.
# hypothesis is already in /venv on this image; (re)install from the offline wheelhouse if missing.
set -u
cd "$(dirname "$0")"
export PIP_NO_INDEX=1
/venv/bin/python -c "import hypothesis" 2>/dev/null || \
  /venv/bin/pip install --no-index --find-links /opt/veriftools/wheels hypothesis >/dev/null 2>&1
# atheris (coverage-guided fuzzing, C08 thorough tier) goes beside the framework, not into /venv.
if [ ! -d .deps/atheris ]; then
  /venv/bin/pip install --no-index --find-links /opt/veriftools/wheels --target .deps atheris >/dev/null 2>&1 || \
    echo "note: atheris not installed; the C08 thorough tier falls back to Hypothesis only"
fi
/venv/bin/python -c "import hypothesis; print('hypothesis', hypothesis.__version__)" || exit 1
PYTHONPATH=. /venv/bin/python -c "from dxv import sut, spec; sut.load(); spec.self_check(); print('dxv ok')" || exit 1
