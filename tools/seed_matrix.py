#!/venv/bin/python
"""Write seeded/MATRIX.md from seeded/*/meta.json (which seeded change is
caught by which check and bucket).  Re-run tools/import_seed.py to refresh a
meta.json."""
import glob
import json
import os

VERIF = os.path.dirname(os.path.dirname(os.path.abspath(__file__)))
out = ['# Seeded breaking changes and the checks that catch them', '',
       'Each change was written by a fresh sub-agent that saw only the text '
       'of one property and its own scratch worktree; each keeps the pinned '
       'suite green and comes with a demonstration that fails with the '
       'change and passes without it (confirmed by tools/import_seed.py in a '
       'scratch worktree, quick tier, seed 1).', '',
       '| change | what it needs to manifest (first line of the author\'s note) | caught by (check:bucket) |',
       '|---|---|---|']
missed = 0
n = 0

for path in sorted(glob.glob(os.path.join(VERIF, 'seeded', '*', 'meta.json'))):
    m = json.load(open(path))
    n += 1
    cells = []

    for p, v in sorted(m['detected_by'].items()):
        if v['exit'] == 1:
            cells.append('%s: %s' % (p, ', '.join(b.split(' (')[0]
                                                  for b in v['buckets'][:3])))
        else:
            cells.append('%s: not caught' % p)

    if not any(v['exit'] == 1 for v in m['detected_by'].values()):
        missed += 1

    note = [l.strip('-* #') for l in m.get('needs_to_manifest', '').splitlines()
            if l.strip('-* #')]
    first = (note[0] if note else '')[:160].replace('|', '/')
    out.append('| %s | %s | %s |' % (m['name'], first, '; '.join(cells)))

out += ['', '%d seeded changes, %d not caught by any check.' % (n, missed), '']
open(os.path.join(VERIF, 'seeded', 'MATRIX.md'), 'w').write('\n'.join(out))
print(n, 'changes,', missed, 'missed')
