#!/venv/bin/python
"""Regenerate /verif/MANIFEST.json from the table below (keeps it valid)."""

import json
import os

VERIF = os.path.dirname(os.path.dirname(os.path.abspath(__file__)))

# property -> (technique, level text, level note, design ref)
CLAIMED = {
    'C13': (
        'Hypothesis-generated trees whose diffs are assembled from hunks '
        'with known +/- counts; oracle = arithmetic ground truth carried by '
        'the generator + snapshot diff + idempotence',
        'Trees with 0-4 changes x 0-4 files; each file gets a diff built '
        'from generated hunks (LF/CRLF, explicit/implicit line_endings, 7 '
        'encodings incl. UTF-16/32 and EBCDIC, garbage between hunks) or a '
        'binary/empty/absent/damaged diff, with pre-existing stats '
        'dictionaries; after generate_stats() file, change and total '
        'figures must equal the generator\'s counts and sums, everything '
        'else must be unchanged, and a second call must change nothing.',
        'Trusted: dxv/hunks.py (geometry and counts by construction).',
        'DESIGN.md section 5 C13'),
    'C14': (
        'Hypothesis-generated hunk sequences with known geometry, '
        'single-point damages and arbitrary line lists; oracle = geometry '
        'carried by the generator, exact error line',
        'Well-formed hunk sequences (start lines incl. 0, counts incl. 0 and '
        'omitted 1, deceptive payloads, markers anywhere, garbage between) '
        'must be parsed into exactly the generator\'s geometry, totals and '
        'consumed-line count in both garbage modes; every single-point '
        'damage must raise MalformedHunkError naming exactly the damaged '
        'line; arbitrary lists (incl. the empty list) give a dict or '
        'MalformedHunkError only.',
        'Trusted: dxv/hunks.py. A marker after a hunk\'s last counting '
        'line is a non-hunk line (pinned by a repository test).',
        'DESIGN.md section 5 C14'),
    'C15': (
        'exhaustive sweep of a computed codec catalogue (82 codecs, ~1430 '
        'spellings) x line endings x indents x texts; oracle = BOM-free '
        'newline from an incremental encoder, spelling-independence of the '
        'bytes, round trip',
        'Every stateless text codec Python registers, under every alias, '
        'case and hyphen/underscore spelling that can stand as an option '
        'value: the newline helpers must return the BOM-free encoded '
        'newline, the writer\'s bytes must be identical apart from the '
        'spelled name and equal the reference serialisation, and reading '
        'must return the written text, metadata and diff. Exhaustive over '
        'the catalogue.',
        'Trusted: CPython incremental encoders; platform byte order for '
        'BOM-emitting codecs.',
        'DESIGN.md section 5 C15'),
    'C19': (
        'exhaustive attribute x value-catalogue enumeration + Hypothesis '
        'tree pairs with single-field perturbations; oracle = documented '
        'type/choice per attribute, own snapshot equality',
        'Every documented attribute on every section kind is assigned every '
        'value of a catalogue (right/wrong type, wrong choice incl. all '
        'substrings of valid choices, None, bool-for-int); valid values '
        'must be stored and read back with nothing else changed, invalid '
        'ones must raise with the whole tree unchanged; unknown constructor '
        'keywords must be rejected. Generated tree pairs: == iff snapshots '
        'equal, != its negation, symmetric, non-mutating, equal trees '
        'serialise identically.',
        'Trusted: dxv/trees.py snapshot; the attribute table in '
        'dxv/props/c19.py (from the documented attribute list).',
        'DESIGN.md section 5 C19'),
    'C20': (
        'Hypothesis-generated strings (DiffX fragments + arbitrary Unicode) '
        'and writer-produced benign UTF-8 files; oracle = concatenation '
        'identity, no Error token, header tokens == section headers',
        'The Pygments lexer is run on fragment-assembled and random strings '
        '(lossless, contiguous indices, 30 s watchdog) and on files '
        'produced by the real writer from generated UTF-8 programs with '
        'benign content (no Error token; Name.Tag header tokens equal the '
        'section headers in order).',
        'Trusted: Pygments token types. Termination is a watchdog, not a '
        'proof.',
        'DESIGN.md section 5 C20'),
    'C05': (
        'Hypothesis-generated object-model trees: to_bytes -> from_bytes; '
        'oracle = model-decided serialisability, reference serializer, own '
        'snapshot equality after the documented normalisation',
        'Trees built only through the public constructors and typed '
        'attributes (every documented attribute set or unset, 11 codecs, '
        'empty/absent contents) must serialise iff the model says so, to '
        'exactly the canonical bytes, and parse back to the same tree after '
        'the documented normalisation only (own recursive snapshot, never '
        'the library\'s __eq__).',
        'Trusted: dxv/trees.py (program_of, expected_snapshot), dxv/spec.py.',
        'DESIGN.md section 5 C05'),
    'C06': (
        'Hypothesis round trips parse -> serialise on canonical files '
        '(writer programs, trees) and on foreign files; oracle = byte '
        'identity / same contents + fixed point; acceptance predicted by '
        'the model',
        'Files produced by the streaming writer and by to_bytes must come '
        'back byte-identical from from_bytes().to_bytes(); foreign '
        'well-formed files the model says the object model can hold must '
        'be accepted, re-serialise without error with the same section '
        'contents, and a second pass must change nothing.',
        'Trusted: dxv/foreign.py. Foreign files with a present-but-empty '
        'metadata object or unknown options are outside the quantifier '
        '(documented in the evidence).',
        'DESIGN.md section 5 C06'),
    'C18': (
        'Hypothesis rule-based state machine over several live trees with '
        'shared reader/writer objects; oracle = snapshot invariants after '
        'every step + identity walk for shared mutables',
        'Random interleavings (<=40 steps) of constructing, add_change/'
        'add_file, typed assignment, in-place mutation of meta/options, '
        'serialising (to_bytes and a reused DiffXDOMWriter, twice each), '
        'parsing (from_bytes and a reused DiffXDOMReader), generate_stats, '
        '==/!=, repr over up to 4 live trees; after every step every tree '
        'not operated on must be unchanged, observers must not change '
        'their operands, an assignment must change only the section its '
        'attribute belongs to, repeated serialisation must be identical '
        'and no dict/list may be reachable from two sections. A second '
        'check replays about 90 scripted histories (encoding-less parsed '
        'tree edited at every level, identical sibling metadata edited in '
        'place, emptied root options, trees extended after serialising) '
        'through the same model.',
        'Trusted: dxv/trees.py snapshot. Arguments are deep-copied by the '
        'harness so any aliasing is the library\'s.',
        'DESIGN.md section 5 C18'),
    'C07': (
        'Hypothesis-generated files x every truncation point x a catalogue '
        'of length perturbations per content header; oracle = '
        'prefix-of-intact-records and exact framing via an independent '
        'reading of the framed bytes',
        'For each generated well-formed file (writer programs and foreign '
        'files, content full of fake sections) the reader is run on EVERY '
        'byte prefix and on 19 perturbed length values per content header; '
        'records must be a prefix of the intact ones followed by a normal '
        'end or DiffXParseError, and a section yielded under a perturbed '
        'length must be exactly the specification\'s reading of that many '
        'bytes. Sections of 64 KiB .. 200 KB are cut around every multiple '
        'of 4 KiB .. 128 KiB. One open known finding (short read accepted, '
        'D3) is classified tightly and reported as KNOWN-FINDING.',
        'Trusted: dxv/spec.py ref_parse/ref_content. Truncation = byte '
        'prefix; torn writes are outside the property.',
        'DESIGN.md section 5 C07, section 6 D3'),
    'C08': (
        'Hypothesis structured corruption fuzzing + random bytes, atheris '
        'coverage-guided fuzzing in the thorough tier; oracle = exception '
        'type contract, line bound, message/attribute agreement, read-budget '
        'termination, stream.closed',
        'Well-formed files are corrupted 1-3 times (hostile option values '
        'and keys, byte/line edits, newline-style changes, truncation) and '
        'fed to the streaming reader, DiffX.from_bytes and '
        'DiffX.from_stream; every outcome is checked against the error '
        'contract and offending exceptions are bucketed by (API, type, '
        'innermost library frame) so one run enumerates root causes; '
        'yielded section ids must always form a legal walk. Loading from a '
        'stream is repeated with an I/O fault injected at EVERY read/seek '
        'call (stream closed, fault not swallowed). Every option value of '
        'every corpus header is replaced by every entry of the hostile-'
        'value dictionary (exhaustive sweep). Thorough adds 16 '
        'atheris shards with the same oracle in-target.',
        'Trusted: the budgeted stream plus a 60 s wall-clock watchdog per '
        'case as stand-ins for termination; line '
        'bound counts 0x0A and 0x25 bytes.',
        'DESIGN.md section 5 C08'),
    'C12': (
        'Hypothesis metamorphic testing: add unknown options to headers of '
        'generated well-formed files',
        'Foreign well-formed files x 1-4 headers x 1-3 unknown key=value '
        'pairs x insertion positions; reader(extended) must equal '
        'reader(original) except that the affected records\' options gain '
        'exactly those pairs (integers converted), and both must equal the '
        'specification\'s reading. An exhaustive sweep adds every identifier '
        'the library uses internally (harvested from its code objects) as '
        'an option key on every header of a nine-section file.',
        'Trusted: dxv/foreign.py render. Unknown = not one of the eight '
        'option names the specification defines.',
        'DESIGN.md section 5 C12'),
    'C17': (
        'metamorphic sweep: every header padding 1..200 and every '
        'read-ahead block size 1..192 (+255, 256, 4096, 10^6) per generated '
        'file; oracle = records equal the default-run / reference records',
        'Per file (foreign generator, writer programs with long lines, the '
        '7 spec examples) every header is lengthened byte by byte through '
        'two full read-ahead blocks, 1..200 empty lines are inserted before '
        'every header, the block size is rebound from the '
        'harness to every value up to 2x the default and beyond the file '
        'size, plus a padding x block diagonal; thousands of reader runs '
        'per file must all give the same records; so must a read next '
        'to an abandoned and a lockstep companion reader, from offset / '
        'buffered / file / gzip streams, (unless refused with '
        'DiffXParseError) with whitespace-only lines before a header, and '
        'in an interpreter started with python -O.',
        'Trusted: dxv/spec.py ref_parse. Block size is varied through the '
        'private default of DiffXReader._read_until; if absent that '
        'dimension is reported unavailable.',
        'DESIGN.md section 5 C17'),
    'C01': (
        'Hypothesis-generated writer programs, write->read round trip; '
        'oracle = records constructed from the calls (model of the calls)',
        'Random well-ordered programs of writer calls (15 codecs incl. '
        'UTF-16/32 with and without BOM and EBCDIC, indents, line endings, '
        'hostile content lines) are written with the real writer and read '
        'with the real reader; every record is compared with what the calls '
        'imply (id, level, options given or derived, content with the final '
        'newline rule, metadata as a JSON value). Sampled, not exhaustive.',
        'Trusted: dxv/spec.py expected_records and CPython codecs/json. '
        'Ambiguous byte-level newline detection in multi-byte diffs accepts '
        'the header\'s kind.',
        'DESIGN.md section 5 C01'),
    'C02': (
        'Hypothesis-generated writer programs; oracle = independent '
        'reference serializer (byte equality) + structural validator using '
        'a strict reference parser',
        'The same program generator as C01; writer output must equal, byte '
        'for byte, a serializer written from the specification, and pass a '
        'validator that walks the bytes (ASCII headers, grammar, sorted '
        'options, legal order, exact length landing on the next header, '
        'final newline, indentation after encoding, canonical JSON).',
        'Trusted: dxv/spec.py ref_segments/ref_parse. Either ASCII-escaping '
        'choice for JSON is accepted per metadata section.',
        'DESIGN.md section 5 C02'),
    'C03': (
        'Hypothesis-generated foreign well-formed files + full catalogue of '
        'single-defect mutations per file; oracle = records built with the '
        'file, cross-checked by a strict reference parser; error line in '
        'the offending section\'s span',
        'An independent generator produces well-formed files the way other '
        'producers may (option order, omitted optional options, blank '
        'lines, CRLF headers, other JSON styles, no encoding) together with '
        'the records the specification assigns; the real reader must give '
        'exactly those (id, level, logical line, converted options, '
        'content). Every applicable single spec violation of each file must '
        'be rejected with a parse error inside the offending section, after '
        'the intact prefix of records. The 7 spec example files are fixed '
        'members.',
        'Trusted: dxv/foreign.py render + dxv/spec.py ref_parse (they must '
        'agree on every generated file, else exit 2).',
        'DESIGN.md section 5 C03'),
    'C04': (
        'exhaustive enumeration of container nesting histories with '
        'mutually incompatible codecs + Hypothesis histories; oracle = '
        'nearest-ancestor scope model',
        'Every history main -> (change -> file+)+ within the shape bound '
        'with each container omitting or declaring one of two codecs, all '
        'content inheriting, is written (bytes == reference) and read back '
        'from both the writer\'s and the reference bytes; four pairwise '
        'incompatible codecs make a wrong scope visible; the same '
        'histories with unknown container codecs overridden everywhere, '
        'without a main encoding, and with a numeric own encoding that '
        'must be refused. Hand-framed files whose text is valid only in '
        'an outer encoding must be refused in place; the writer must '
        'refuse text the encoding in effect cannot represent. Random deeper '
        'histories with per-section overrides beyond the bound.',
        'Trusted: dxv/spec.py Walker (scope model). Incompatibility of the '
        'four codecs is verified at start-up.',
        'DESIGN.md section 5 C04'),
    'C09': (
        'exhaustive enumeration of writer call sequences + Hypothesis '
        'sequences; oracle = independent transition table, per-step '
        'atomicity/append-only invariants, reference serializer on the '
        'accepted calls',
        'All call sequences over the 5 writer operations up to length 8 '
        '(quick) / 10 (thorough) and over 10 valid + 47 invalid-argument '
        'variants + 8 codec names no header can carry (refused atomically '
        'or accepted and readable) up to length 3 / 4 are run against the real writer and an '
        'independent model; Hypothesis sequences up to length 40 with '
        'generated arguments beyond. Exhaustive up to the bound only.',
        'Trusted: dxv/spec.py (table with the two documented errata, '
        'reference serializer). A rejected call may raise any Exception.',
        'DESIGN.md section 5 C09'),
    'C10': (
        'exhaustive enumeration of section-id sequences (legal prefix + one '
        'candidate) + random deep walks; oracle = independent transition '
        'table',
        'Every legal prefix up to depth 12 (quick) / 16 (thorough) followed '
        'by each of 24 level x name ids and 8 out-of-vocabulary headers is '
        'fed to the real reader; accepted iff the table allows it, records '
        'must carry the right ids/levels; shallow prefixes are also tried '
        'with 1..300 empty lines before the candidate, with a '
        'zero-length last section, and next to a companion reader '
        'advanced in lockstep. Exhaustive up to the depth bound; '
        'random walks to depth 60 beyond.',
        'Trusted: dxv/spec.py table (two documented errata). Sections carry '
        'minimal valid content.',
        'DESIGN.md section 5 C10'),
    'C11': (
        'exhaustive enumeration of header option strings over a 15-byte '
        'alphabet + grammar-derived Hypothesis mutations; oracle = '
        'independent full-match grammar',
        'Every option tail over 16 representative bytes up to length 5 '
        '(quick) / 6 (thorough) and over 8 bytes up to 7 / 8, tails with '
        'stray CRs in CRLF files, every junk string of up to 3 / 4 bytes in '
        'place of the separator between well-formed pairs, plus '
        'grammar-derived lines with byte edits and malformed prefixes, is '
        'read by the real reader and compared with a full-match grammar '
        '(accept/reject, option values, integer conversion, exception '
        'type); the random part also uses CRLF files, repeated keys and '
        'lines padded to the read-ahead block size.',
        'Trusted: the regex in dxv/spec.py (checked at start-up against the '
        'specification\'s own valid/invalid examples). Sliver values (1_0) '
        'and duplicate keys accept either rendering.',
        'DESIGN.md section 5 C11'),
    'C16': (
        'exhaustive small-scope enumeration + Hypothesis random strings; '
        'oracle = the four algebraic split/join identities and a reference '
        'splitter',
        'Every byte string over {CR,LF,NUL,SP,a} up to length 7 (quick) / 9 '
        '(thorough) x the 10 newline sequences the library uses is checked '
        'against the four identities of the property and an independent '
        'splitter; newlines straddling block boundaries (96 B .. 1 MiB) '
        'and result aliasing between calls are enumerated; longer '
        'token-built strings are sampled with Hypothesis. '
        'Exhaustive up to the bound, sampled beyond.',
        'Trusted: bytes.count/find/endswith of CPython, dxv/spec.py '
        'split_keep. The newline set is the one the library can produce '
        '(LF/CRLF in ASCII, UTF-16/32 LE/BE).',
        'DESIGN.md section 5 C16'),
}

PENDING_REASON = ('check not built yet in this round -- the property is '
                  'decidable by generated-input search (see DESIGN.md '
                  'section 5) and will be claimed when its check is '
                  'registered')


def main():
    props = [json.loads(l) for l in open(os.path.join(VERIF,
                                                      'properties.jsonl'))]
    checks = []
    na = []

    for p in props:
        pid = p['id']

        if pid in CLAIMED:
            tech, text, note, ref = CLAIMED[pid]
            checks.append({
                'property_id': pid,
                'quick_cmd': '/venv/bin/python -m dxv.cli %s --tier quick'
                             % pid,
                'thorough_cmd': '/venv/bin/python -m dxv.cli %s --tier '
                                'thorough' % pid,
                'evidence_file': '/verif/evidence/%s.json' % pid,
                'replay_cmd_template': '/venv/bin/python -m dxv.cli %s '
                                       '--replay {path}' % pid,
                'engine': 'dxv',
                'level_claimed': {
                    'category': 'exploration',
                    'text': text,
                    'design_ref': ref,
                },
                'level_note': note,
                'technique': tech,
            })
        else:
            na.append({'property_id': pid, 'reason': PENDING_REASON})

    manifest = {
        'version': 1,
        'setup_cmd': './setup.sh',
        'hooks': {
            'guard': 'BEANBAGINC_DIFFX_VERIF',
            'enable': 'no source hooks: checks import /repo/python from the '
                      'working tree in a fresh process (VERIF_REPO overrides '
                      'the path); the guard variable is set by the harness '
                      'but nothing in /repo reads it',
            'baseline_off_cmd': 'cd /repo && /venv/bin/python -m pytest -ra '
                                '-q -p no:cacheprovider',
            'source_commits': [],
            'add_only': True,
        },
        'engines': [{
            'name': 'dxv',
            'path': '/verif/dxv',
            'serves_properties': sorted(CLAIMED),
            'kind_free_text': 'property-based testing and fuzzing: '
                              'Hypothesis strategies / rule-based state '
                              'machines, exhaustive small-scope enumeration '
                              'on 16 processes, atheris coverage-guided '
                              'fuzzing (C08 thorough); explicit oracles '
                              '(independent spec model, round trips, '
                              'metamorphic relations, invariants)',
        }],
        'checks': checks,
        'notes': 'Exit codes: 0 held on everything explored; 1 VIOLATION '
                 'line(s) with replay files under /verif/replays; 2 harness '
                 'error. Open known findings are in known_findings.txt with '
                 'their inputs under findings/.',
        'not_applicable': na,
    }

    with open(os.path.join(VERIF, 'MANIFEST.json'), 'w') as fp:
        json.dump(manifest, fp, indent=1)
        fp.write('\n')


if __name__ == '__main__':
    main()
