#!/venv/bin/python
"""Regenerate /verif/MANIFEST.json from the table below (keeps it valid)."""

import json
import os

VERIF = os.path.dirname(os.path.dirname(os.path.abspath(__file__)))

# property -> (technique, level text, level note, design ref)
CLAIMED = {
    'C16': (
        'exhaustive small-scope enumeration + Hypothesis random strings; '
        'oracle = the four algebraic split/join identities and a reference '
        'splitter',
        'Every byte string over {CR,LF,NUL,SP,a} up to length 7 (quick) / 9 '
        '(thorough) x the 10 newline sequences the library uses is checked '
        'against the four identities of the property and an independent '
        'splitter; longer token-built strings are sampled with Hypothesis. '
        'Exhaustive up to the bound, sampled beyond.',
        'Trusted: bytes.count/find/endswith of CPython, dxv/spec.py '
        'split_keep. The newline set is the one the library can produce '
        '(LF/CRLF in ASCII, UTF-16/32 LE/BE).',
        'DESIGN.md section 5 C16'),
}

PENDING_REASON = ('check not built yet in this round -- the property is '
                  'decidable by generated-input search (see DESIGN.md '
                  'section 5) and will be claimed when its check is '
                  'registered')


def main():
    props = [json.loads(l) for l in open(os.path.join(VERIF,
                                                      'properties.jsonl'))]
    checks = []
    na = []

    for p in props:
        pid = p['id']

        if pid in CLAIMED:
            tech, text, note, ref = CLAIMED[pid]
            checks.append({
                'property_id': pid,
                'quick_cmd': '/venv/bin/python -m dxv.cli %s --tier quick'
                             % pid,
                'thorough_cmd': '/venv/bin/python -m dxv.cli %s --tier '
                                'thorough' % pid,
                'evidence_file': '/verif/evidence/%s.json' % pid,
                'replay_cmd_template': '/venv/bin/python -m dxv.cli %s '
                                       '--replay {path}' % pid,
                'engine': 'dxv',
                'level_claimed': {
                    'category': 'exploration',
                    'text': text,
                    'design_ref': ref,
                },
                'level_note': note,
                'technique': tech,
            })
        else:
            na.append({'property_id': pid, 'reason': PENDING_REASON})

    manifest = {
        'version': 1,
        'setup_cmd': './setup.sh',
        'hooks': {
            'guard': 'BEANBAGINC_DIFFX_VERIF',
            'enable': 'no source hooks: checks import /repo/python from the '
                      'working tree in a fresh process (VERIF_REPO overrides '
                      'the path); the guard variable is set by the harness '
                      'but nothing in /repo reads it',
            'baseline_off_cmd': 'cd /repo && /venv/bin/python -m pytest -ra '
                                '-q -p no:cacheprovider',
            'source_commits': [],
            'add_only': True,
        },
        'engines': [{
            'name': 'dxv',
            'path': '/verif/dxv',
            'serves_properties': sorted(CLAIMED),
            'kind_free_text': 'property-based testing and fuzzing: '
                              'Hypothesis strategies / rule-based state '
                              'machines, exhaustive small-scope enumeration '
                              'on 16 processes, atheris coverage-guided '
                              'fuzzing (C08 thorough); explicit oracles '
                              '(independent spec model, round trips, '
                              'metamorphic relations, invariants)',
        }],
        'checks': checks,
        'notes': 'Exit codes: 0 held on everything explored; 1 VIOLATION '
                 'line(s) with replay files under /verif/replays; 2 harness '
                 'error. Open known findings are in known_findings.txt with '
                 'their inputs under findings/.',
        'not_applicable': na,
    }

    with open(os.path.join(VERIF, 'MANIFEST.json'), 'w') as fp:
        json.dump(manifest, fp, indent=1)
        fp.write('\n')


if __name__ == '__main__':
    main()
