#!/bin/bash
# usage: tools/try_patch.sh <patch.diff> <PROP> [more PROPs...]   (env: TIER, VERIF_SEED, SKIP_TESTS, DEMO)
# Applies the patch to a scratch worktree of /repo HEAD (outside /repo and /verif),
# checks that the pinned suite still passes there, runs the property's check against
# it (VERIF_REPO), and removes the worktree.
set -u
patch="$(readlink -f "$1")"; shift
wt="$(mktemp -d /tmp/mutwt.XXXXXX)"; rmdir "$wt"
git -C /repo worktree add --detach "$wt" HEAD -q || exit 3
cleanup() { git -C /repo worktree remove --force "$wt" 2>/dev/null; rm -rf "$wt"; }
trap cleanup EXIT
if ! git -C "$wt" apply "$patch"; then echo "PATCH-DOES-NOT-APPLY"; exit 3; fi
if [ -z "${SKIP_TESTS:-}" ]; then
  ( cd "$wt" && /venv/bin/python -m pytest -q -p no:cacheprovider -x 2>&1 | tail -1 )
fi
if [ -n "${DEMO:-}" ]; then
  /venv/bin/python "$DEMO" "$wt" >/dev/null 2>&1; echo "demo-with-patch exit=$?"
  /venv/bin/python "$DEMO" /repo >/dev/null 2>&1; echo "demo-on-repo exit=$?"
fi
cd /verif
for p in "$@"; do
  VERIF_REPO="$wt" VERIF_NO_SHRINK=${VERIF_NO_SHRINK:-1} /venv/bin/python -m dxv.cli "$p" --tier "${TIER:-quick}" 2>&1 | grep -E "VIOLATION|kind=|tier=|HARNESS|KNOWN" | cut -c1-220
  echo "[$p exit=${PIPESTATUS[0]}]"
done
