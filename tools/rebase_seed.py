#!/venv/bin/python
"""Re-base a kept seeded change whose patch no longer applies because a later
fix: commit in /repo touched the same lines.

usage: tools/rebase_seed.py <name> [...]

`git apply --3way` in a scratch worktree; every conflict block is resolved by
keeping both sides (HEAD's lines first, then the change's), with two special
cases (an `except` line: the change's exception class plus the ones the fix
added; two docstring tails: HEAD's docstring, then the change's code).  The
result is kept only if the pinned suite passes and the demonstration still
fails with the change and passes without it; patch.diff is then re-generated
against HEAD.  Prints the resolved regions for review.
"""

import os
import re
import subprocess
import sys

VERIF = os.path.dirname(os.path.dirname(os.path.abspath(__file__)))
BLOCK = re.compile(r'<<<<<<< ours\n(.*?)=======\n(.*?)>>>>>>> theirs\n', re.S)


def sh(cmd, **kw):
    p = subprocess.run(cmd, shell=isinstance(cmd, str),
                       stdout=subprocess.PIPE, stderr=subprocess.STDOUT, **kw)
    return p.returncode, p.stdout.decode('utf-8', 'replace')


def resolve(m):
    ours, theirs = m.group(1), m.group(2)

    if os.environ.get('REBASE_THEIRS'):
        # the change rewrote the region: take its side, keep what the fix
        # added to the except clause
        return theirs.replace('except ValueError as e:',
                              'except (ValueError, RecursionError) as e:')

    if 'except (ValueError, RecursionError)' in ours and 'except ' in theirs:
        cls = re.search(r'except ([\w.]+) as e:', theirs)

        if cls:
            return ours.replace('(ValueError, RecursionError)',
                                '(%s, RecursionError)' % cls.group(1))

    if '"""' in ours and '"""' in theirs:
        return ours + theirs.split('"""\n', 1)[1]

    return ours + theirs


def main():
    for name in sys.argv[1:]:
        d = os.path.join(VERIF, 'seeded', name)
        wt = '/tmp/rebase_wt'
        sh(['git', '-C', '/repo', 'worktree', 'remove', '--force', wt])
        rc, out = sh(['git', '-C', '/repo', 'worktree', 'add', '--detach',
                      wt, 'HEAD', '-q'])
        assert rc == 0, out

        try:
            sh(['git', '-C', wt, 'apply', '--3way',
                os.path.join(d, 'patch.diff')])
            rc, files = sh(['git', '-C', wt, 'diff', '--name-only',
                            '--diff-filter=U'])

            for f in files.split():
                path = os.path.join(wt, f)

                with open(path) as fp:
                    text = fp.read()

                for m in BLOCK.finditer(text):
                    print('--- %s: %s resolved as\n%s' % (name, f,
                                                           resolve(m)))

                text = BLOCK.sub(resolve, text)

                if os.environ.get('REBASE_THEIRS'):
                    text = text.replace(
                        'except ValueError as e:',
                        'except (ValueError, RecursionError) as e:')

                with open(path, 'w') as fp:
                    fp.write(text)

            sh(['git', '-C', wt, 'reset', '-q'])
            rc, patch = sh(['git', '-C', wt, 'diff'])
            rc, suite = sh('cd %s && /venv/bin/python -m pytest -q -p '
                           'no:cacheprovider 2>&1 | tail -1' % wt)
            rc1, _ = sh(['/venv/bin/python', os.path.join(d, 'demo.py'), wt])
            rc0, _ = sh(['/venv/bin/python', os.path.join(d, 'demo.py'),
                         '/repo'])
            ok = ' passed' in suite and 'failed' not in suite and \
                rc1 != 0 and rc0 == 0
            print('%s: suite %s; demo with change exit=%d, without exit=%d '
                  '-> %s' % (name, suite.strip(), rc1, rc0,
                             'REBASED' if ok else 'NOT KEPT'))

            if ok:
                with open(os.path.join(d, 'patch.diff'), 'w') as fp:
                    fp.write(patch)
        finally:
            sh(['git', '-C', '/repo', 'worktree', 'remove', '--force', wt])


if __name__ == '__main__':
    main()
