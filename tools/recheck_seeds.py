#!/venv/bin/python
"""Re-run the registered quick checks against every kept seeded change
(seeded/<name>/patch.diff) and refresh meta.json + MATRIX.md.

usage: tools/recheck_seeds.py [name ...]      (default: all)

Each change is applied to a scratch worktree of /repo HEAD under /tmp, the
pinned suite and the demonstration are re-confirmed, the checks named in its
meta.json are run with VERIF_REPO pointing at the worktree, and the worktree
is removed again.
"""

import glob
import json
import os
import re
import shutil
import subprocess
import sys
import tempfile

VERIF = os.path.dirname(os.path.dirname(os.path.abspath(__file__)))


def sh(cmd, **kw):
    p = subprocess.run(cmd, shell=isinstance(cmd, str),
                       stdout=subprocess.PIPE, stderr=subprocess.STDOUT, **kw)
    return p.returncode, p.stdout.decode('utf-8', 'replace')


def recheck(name):
    d = os.path.join(VERIF, 'seeded', name)
    meta = json.load(open(os.path.join(d, 'meta.json')))
    wt = tempfile.mkdtemp(prefix='seedwt.', dir='/tmp')
    os.rmdir(wt)
    rc, out = sh(['git', '-C', '/repo', 'worktree', 'add', '--detach', wt,
                  'HEAD', '-q'])
    assert rc == 0, out

    try:
        patch = os.path.join(d, 'patch.diff')
        rc, out = sh(['git', '-C', wt, 'apply', patch])

        if rc != 0:
            # the context moved because of a later fix: commit in /repo
            rc, out = sh(['git', '-C', wt, 'apply', '--3way', patch])

            if rc != 0:
                return name, 'PATCH DOES NOT APPLY', {}

            sh(['git', '-C', wt, 'reset', '-q'])
            rc, rebased = sh(['git', '-C', wt, 'diff'])

            with open(patch, 'w') as fp:
                fp.write(rebased)

            meta['applied_with'] = ('git apply --3way (context moved by '
                                    'later fix: commits); patch.diff '
                                    're-generated against HEAD')

        rc, out = sh('cd %s && /venv/bin/python -m pytest -q -p '
                     'no:cacheprovider 2>&1 | tail -1' % wt)
        meta['pinned_suite_with_change'] = out.strip()
        rc1, _ = sh(['/venv/bin/python', os.path.join(d, 'demo.py'), wt])
        rc0, _ = sh(['/venv/bin/python', os.path.join(d, 'demo.py'), '/repo'])
        meta['demo_exit_with_change'] = rc1
        meta['demo_exit_without_change'] = rc0
        detected = {}
        ran = []

        for p in sorted(meta['detected_by']):
            env = dict(os.environ, VERIF_REPO=wt, VERIF_NO_SHRINK='1')
            rc, out = sh(['/venv/bin/python', '-m', 'dxv.cli', p, '--tier',
                          'quick'], cwd=VERIF, env=env)
            kinds = re.findall(r'check=(\S+) kind=(\S+) hits=(\d+)', out)
            detected[p] = {'exit': rc,
                           'buckets': ['%s:%s (%s hits)' % k for k in kinds]}
            ran.append('VERIF_REPO=<scratch worktree with the change> '
                       '/venv/bin/python -m dxv.cli %s --tier quick -> exit '
                       '%d' % (p, rc))

        meta['detected_by'] = detected
        meta['ran'] = ran

        with open(os.path.join(d, 'meta.json'), 'w') as fp:
            json.dump(meta, fp, indent=1, sort_keys=True)
            fp.write('\n')

        status = 'ok' if ' passed' in meta['pinned_suite_with_change'] and \
            rc1 != 0 and rc0 == 0 else 'DEMO/SUITE PROBLEM'
        return name, status, detected
    finally:
        sh(['git', '-C', '/repo', 'worktree', 'remove', '--force', wt])
        shutil.rmtree(wt, ignore_errors=True)


def main():
    names = sys.argv[1:] or sorted(
        os.path.basename(os.path.dirname(p))
        for p in glob.glob(os.path.join(VERIF, 'seeded', '*', 'meta.json')))
    missed = []

    for n in names:
        name, status, det = recheck(n)
        caught = [p for p, v in det.items() if v['exit'] == 1]
        print('%-8s %-22s caught by %s' % (name, status,
                                           ', '.join(caught) or 'NOTHING'))
        sys.stdout.flush()

        if not caught:
            missed.append(name)

    sh([os.path.join(VERIF, 'tools', 'seed_matrix.py')])
    print('missed:', missed)


if __name__ == '__main__':
    main()
