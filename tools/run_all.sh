#!/bin/bash
# usage: tools/run_all.sh [tier] [seed]  -- runs every registered check, prints one line each
tier="${1:-quick}"; seed="${2:-1}"
cd "$(dirname "$0")/.."
for p in C01 C02 C03 C04 C05 C06 C07 C08 C09 C10 C11 C12 C13 C14 C15 C16 C17 C18 C19 C20; do
  s=$(date +%s.%N)
  out=$(VERIF_SEED=$seed /venv/bin/python -m dxv.cli $p --tier $tier 2>&1); rc=$?
  e=$(date +%s.%N)
  printf "%s rc=%d %.1fs %s\n" $p $rc $(echo "$e - $s" | bc) "$(echo "$out" | grep -E 'tier=' | sed 's/.*: //' | cut -c1-110)"
  if [ $rc -ne 0 ]; then echo "$out" | grep -E "VIOLATION|kind=|HARNESS|Error" | head -8 | cut -c1-250; fi
done
