#!/venv/bin/python
"""Confirm a seeded breaking change and keep it under /verif/seeded/.

usage: tools/import_seed.py <src dir with patch.diff demo.py notes.md> <PROP> <name> [check props...]

In a scratch worktree of /repo HEAD (outside /repo and /verif): apply the
patch (3-way if the context moved because of later fix: commits), confirm the
pinned suite passes, the demonstration fails with the change and passes
without it, run the listed checks (quick tier) against the changed tree, then
remove the worktree.  Writes seeded/<name>/{patch.diff,demo.py,meta.json};
patch.diff is re-generated against the current HEAD so that
`git -C /repo apply seeded/<name>/patch.diff` works.
"""

import json
import os
import re
import shutil
import subprocess
import sys
import tempfile

VERIF = os.path.dirname(os.path.dirname(os.path.abspath(__file__)))


def sh(cmd, **kw):
    p = subprocess.run(cmd, shell=isinstance(cmd, str), stdout=subprocess.PIPE,
                       stderr=subprocess.STDOUT, **kw)
    return p.returncode, p.stdout.decode('utf-8', 'replace')


def main():
    src, prop, name = sys.argv[1:4]
    props = sys.argv[4:] or [prop]
    src = os.path.abspath(src)
    wt = tempfile.mkdtemp(prefix='seedwt.', dir='/tmp')
    os.rmdir(wt)
    rc, out = sh(['git', '-C', '/repo', 'worktree', 'add', '--detach', wt,
                  'HEAD', '-q'])
    assert rc == 0, out
    meta = {'property': prop, 'name': name, 'ran': []}

    try:
        patch = os.path.join(src, 'patch.diff')
        rc, out = sh(['git', '-C', wt, 'apply', patch])
        how = 'git apply'

        if rc != 0:
            rc, out = sh(['git', '-C', wt, 'apply', '--3way', patch])
            how = 'git apply --3way (context moved by later fix: commits)'

        if rc != 0:
            print('PATCH DOES NOT APPLY:\n' + out)
            return 3

        sh(['git', '-C', wt, 'reset', '-q'])
        rc, rebased = sh(['git', '-C', wt, 'diff'])
        meta['applied_with'] = how
        rc, out = sh('cd %s && /venv/bin/python -m pytest -q -p '
                     'no:cacheprovider 2>&1 | tail -1' % wt)
        meta['pinned_suite_with_change'] = out.strip()
        print('suite:', out.strip())

        if ' failed' in out or 'error' in out.lower():
            print('SUITE DOES NOT PASS WITH THE CHANGE')
            return 3

        demo = os.path.join(src, 'demo.py')
        rc1, _ = sh(['/venv/bin/python', demo, wt])
        rc0, _ = sh(['/venv/bin/python', demo, '/repo'])
        meta['demo_exit_with_change'] = rc1
        meta['demo_exit_without_change'] = rc0
        print('demo with change exit=%d, without exit=%d' % (rc1, rc0))

        if rc1 == 0 or rc0 != 0:
            print('DEMONSTRATION NOT CONFIRMED')
            return 3

        detected = {}

        for p in props:
            env = dict(os.environ, VERIF_REPO=wt, VERIF_NO_SHRINK='1')
            rc, out = sh(['/venv/bin/python', '-m', 'dxv.cli', p, '--tier',
                          os.environ.get('TIER', 'quick')], cwd=VERIF, env=env)
            kinds = re.findall(r'check=(\S+) kind=(\S+) hits=(\d+)', out)
            detected[p] = {'exit': rc,
                           'buckets': ['%s:%s (%s hits)' % k for k in kinds]}
            meta['ran'].append('VERIF_REPO=<scratch worktree with the change> '
                               '/venv/bin/python -m dxv.cli %s --tier %s -> '
                               'exit %d' % (p, os.environ.get('TIER', 'quick'),
                                            rc))
            print(p, 'exit', rc, detected[p]['buckets'][:4])

        meta['detected_by'] = detected
        notes = os.path.join(src, 'notes.md')

        if os.path.exists(notes):
            with open(notes) as fp:
                meta['needs_to_manifest'] = fp.read()

        dst = os.path.join(VERIF, 'seeded', name)
        os.makedirs(dst, exist_ok=True)

        with open(os.path.join(dst, 'patch.diff'), 'w') as fp:
            fp.write(rebased)

        shutil.copy(demo, os.path.join(dst, 'demo.py'))

        with open(os.path.join(dst, 'meta.json'), 'w') as fp:
            json.dump(meta, fp, indent=1, sort_keys=True)
            fp.write('\n')

        return 0
    finally:
        sh(['git', '-C', '/repo', 'worktree', 'remove', '--force', wt])
        shutil.rmtree(wt, ignore_errors=True)


if __name__ == '__main__':
    sys.exit(main())
